#!/venv/bin/python
"""Run the registered checks against the independently seeded changes kept under /verif/seeded/<id>/.

For each seeded change (patch.diff, demo.py, meta.json) a scratch git worktree of /repo is created
outside /repo and /verif, the patch is applied there, and
  1. the author's demonstration must fail with the change and pass on the clean tree,
  2. (with --tests) the repository's own test suite must still pass with the change,
  3. the quick check of the property named in meta.json is run with VERIF_REPO pointing at the
     worktree and must exit 1 with a VIOLATION line.
The worktree is removed afterwards.  /repo itself is never modified.

  tools/seeded.py [id-substring ...] [--budget S] [--tests] [--also C01,C05]
"""
import json
import os
import shutil
import subprocess
import sys
import tempfile
import time

VERIF = os.path.dirname(os.path.dirname(os.path.abspath(__file__)))
REPO = os.environ.get("SEED_REPO", "/repo")
PY = "/venv/bin/python"
FALLBACK_BASE = "a0a910c"      # the revision of /repo the changes of rounds 1-11 were written against


def sh(cmd, env=None, cwd=None, timeout=1200):
    p = subprocess.run(cmd, capture_output=True, text=True, env=env, cwd=cwd, timeout=timeout)
    return p.returncode, p.stdout + p.stderr


def main():
    args = [a for a in sys.argv[1:] if not a.startswith("--")]
    budget = "30"
    if "--budget" in sys.argv:
        budget = sys.argv[sys.argv.index("--budget") + 1]
        args = [a for a in args if a != budget]
    also = []
    if "--also" in sys.argv:
        v = sys.argv[sys.argv.index("--also") + 1]
        also = v.split(",")
        args = [a for a in args if a != v]
    with_tests = "--tests" in sys.argv
    root = os.path.join(VERIF, "seeded")
    ids = sorted(d for d in os.listdir(root) if os.path.isdir(os.path.join(root, d)))
    ids = [i for i in ids if not args or any(a in i for a in args)]
    results = []
    for sid in ids:
        d = os.path.join(root, sid)
        meta = json.load(open(os.path.join(d, "meta.json")))
        prop = meta["property"]
        wt = tempfile.mkdtemp(prefix="seedwt_", dir="/tmp")
        os.rmdir(wt)
        row = {"id": sid, "property": prop}
        try:
            # (a change that a later "fix:" commit neutralised or rewrote is judged on the revision it was written for)
            rc, out = sh(["git", "-C", REPO, "worktree", "add", "--detach", wt, meta.get("base_rev") or "HEAD"])
            if meta.get("base_rev"):
                row["base_rev"] = meta["base_rev"]
            if rc:
                print(out)
                row["status"] = "WORKTREE-FAILED"
                results.append(row)
                continue
            env = dict(os.environ, PYTHONPATH=os.path.join(wt, "src"))
            clean_env = dict(os.environ, PYTHONPATH=os.path.join(REPO, "src"))
            rc_clean, out_clean = sh(["timeout", "120", PY, os.path.join(d, "demo.py")], env=clean_env, cwd=d)
            rc, out = sh(["git", "-C", wt, "apply", os.path.join(d, "patch.diff")])
            if rc:
                # the change was written against an earlier revision of /repo and touches lines a later "fix:"
                # commit rewrote: it is judged on the revision it was written for
                base = meta.get("base_rev") or FALLBACK_BASE
                sh(["git", "-C", REPO, "worktree", "remove", "--force", wt])
                shutil.rmtree(wt, ignore_errors=True)
                sh(["git", "-C", REPO, "worktree", "add", "--detach", wt, base])
                rc, out = sh(["git", "-C", wt, "apply", os.path.join(d, "patch.diff")])
                row["base_rev"] = base
            if rc:
                print(out)
                row["status"] = "PATCH-DOES-NOT-APPLY"
                results.append(row)
                continue
            rc_mut, out_mut = sh(["timeout", "120", PY, os.path.join(d, "demo.py")], env=env, cwd=d)
            row["demo_clean"] = "pass" if rc_clean == 0 else f"FAIL({rc_clean})"
            row["demo_changed"] = "fails" if rc_mut != 0 else "PASSES"
            if with_tests:
                for attempt in range(4):     # the suite binds random ports: retry on collisions
                    rc_t, out_t = sh(["timeout", "900", PY, "-m", "pytest", "-q", "-p", "no:cacheprovider",
                                      "--timeout=900", "tests"], env=env, cwd=wt)
                    if rc_t == 0 or not ("Address already in use" in out_t or "Permission denied" in out_t
                                         or "OSError" in out_t):
                        break
                failed = [l.split()[1] for l in out_t.splitlines() if l.startswith("FAILED ")]
                # the baseline itself lists test_message_encoding as flaky (it reads with a 20 ms timeout)
                stable_failed = [f for f in failed if "test_message_encoding" not in f]
                if rc_t != 0 and failed and not stable_failed:
                    rc_t = 0
                    row["flaky_ignored"] = failed
                row["tests"] = "pass" if rc_t == 0 else "FAIL"
                if rc_t:
                    row["tests_tail"] = out_t[-400:]
            tmpd = tempfile.mkdtemp(prefix="seedev_", dir="/tmp")
            cenv = dict(os.environ, VERIF_REPO=wt, VERIF_EVIDENCE_DIR=os.path.join(tmpd, "ev"),
                        VERIF_REPLAY_DIR=os.path.join(tmpd, "rp"))
            if row.get("base_rev"):
                # the older revision still has the mass-failure defect repaired by 4928b9e: the cases that exist to
                # find that defect are left out, so that the seeded change is judged on its own
                cenv["VERIF_NO_MASS_FAILURE"] = "1"
            caught_by = []
            for pr in [prop] + [a for a in also if a != prop]:
                t0 = time.time()
                rc_c, out_c = sh([PY, os.path.join(VERIF, "run_check.py"), pr, "--tier", "quick", "--budget", budget,
                                  "--seed", "21"], env=cenv)
                line = [l for l in out_c.splitlines() if l.startswith("violation:")][:1]
                if rc_c == 1 and f"VIOLATION property={pr}" in out_c:
                    caught_by.append(pr)
                    row.setdefault("violation", (line[0] if line else "")[:220])
                    row.setdefault("seconds", round(time.time() - t0))
                elif rc_c == 2:
                    row["harness_error"] = out_c[-600:]
            shutil.rmtree(tmpd, ignore_errors=True)
            row["caught_by"] = caught_by
            row["status"] = "caught" if prop in caught_by else ("caught-by-other" if caught_by else "MISSED")
        finally:
            sh(["git", "-C", REPO, "worktree", "remove", "--force", wt])
            shutil.rmtree(wt, ignore_errors=True)
        results.append(row)
        print(json.dumps(row))
        # record what was run next to the seeded change
        if "--record" in sys.argv and row.get("status"):
            meta["verified"] = {
                "demo_on_clean_tree": row.get("demo_clean"), "demo_with_change": row.get("demo_changed"),
                "existing_tests_with_change": row.get("tests", "not run in this invocation"),
                "check_run": f"VERIF_REPO=<scratch worktree with the patch> run_check.py {prop} --tier quick --budget {budget} --seed 21",
                "caught_by": row.get("caught_by"), "first_violation": row.get("violation"),
                "seconds_to_violation": row.get("seconds"), "status": row["status"],
                "judged_on": row.get("base_rev", "HEAD of /repo"),
            }
            with open(os.path.join(d, "meta.json"), "w") as f:
                json.dump(meta, f, indent=1)
    n = sum(1 for r in results if r.get("status") == "caught")
    print(f"{n}/{len(results)} seeded changes caught by the check of their own property")
    return 0 if n == len(results) else 1


if __name__ == "__main__":
    sys.exit(main())
