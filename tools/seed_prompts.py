#!/venv/bin/python
"""Writes the prompt given to each seeding sub-agent (one per claimed property) for round N.

  tools/seed_prompts.py <round> [outdir=/tmp]

The prompt contains only the text of the property, the summaries of the changes already tried for it
(so that a new round finds different mechanisms) and the delivery format; nothing about /verif.
"""
import glob
import json
import os
import sys

VERIF = os.path.dirname(os.path.dirname(os.path.abspath(__file__)))
CLAIMED = ["C01", "C02", "C03", "C05", "C06", "C07", "C08", "C09", "C14", "C17", "C18", "C19"]
ORD = {6: "SIXTH", 7: "SEVENTH", 8: "EIGHTH", 9: "NINTH", 10: "TENTH", 11: "ELEVENTH", 12: "TWELFTH"}

FOCUS = {
    6: """  * This round, look especially at: (a) the SHARED modules that the property's mechanism depends on but that are not its main file - src/pyrtma/message.py, header.py, message_data.py, message_base.py, validators.py, context.py, exceptions.py, constants / core_defs.py, client_logging.py, utils/ - a change there that is harmless for everything else; (b) behaviour that depends on HOW MANY times or IN WHAT ORDER something happened before (the second / third occurrence, an operation right after a failed or refused one, an operation on an object that was used for something else before); (c) values that are legal but sit at the edge of a representation (largest / smallest id, 16/32-bit wrap, empty / maximal payload, zero / negative / huge timeout, time stamps of 0 or far in the future); (d) the code's handling of PARTIAL progress (short reads and writes, a peer that goes away between two steps of one operation, an exception between two statements that belong together); (e) two objects of the same class living in one process (two clients, two managers one after the other, two data collections, two threads) that end up sharing something they must not share.""",
    7: """  * This round, look especially at: (a) what happens AFTER an error path was taken once (state left behind by a refused, failed, timed-out or interrupted operation, that makes a later perfectly ordinary operation go wrong); (b) pairs of operations that are each correct but whose combination in a particular order is not; (c) anything keyed, indexed, cached, sorted or compared by a value that can legally collide, repeat, wrap or be negative; (d) work that is skipped as an 'optimisation' when it looks unnecessary (already subscribed, nothing changed, same value as last time, empty list, zero bytes) in a case where it is in fact necessary; (e) resource ownership: who closes, removes, clears or resets what, and when.""",
    8: """  * This round, look especially at: (a) behaviour that depends on DURATIONS and DEADLINES (the periods of the manager's periodic messages, select / read / acknowledgement timeouts, sleeps, flush and subdivision periods, time stamps compared with < versus <=, clocks that jump or stand still); (b) behaviour that depends on how bytes are CHUNKED (short reads and short writes at every layer, a frame split at any offset, several frames in one read, zero-length reads and writes); (c) rarely failing calls that suddenly do fail or return something unusual (accept, getpeername, setsockopt, close, logging handlers, open / write / flush / rename of files: disk full, permission denied, EINTR), and the clean-up that must still happen afterwards; (d) Python object lifetime and identity (objects reused after reset, ids reused after garbage collection, default arguments evaluated once, class attributes that should be instance attributes, iteration order of sets and dicts, mutation during iteration); (e) formatting and parsing of numbers and text at their extremes in the text formats the project writes and reads back (JSON, CSV headers, names with separators, NaN / inf, 64-bit integers, non-ASCII).""",
    9: """  * This round, look especially at: (a) the parts of the PUBLIC API that are used less often and their interplay with the common ones (Client.send_signal / send_message_to_module / forward_message, discard_messages, wait_for_acknowledgement, read_message(ack=True), the context managers, Client.connect called repeatedly or with unusual server strings; DataCollection pause / resume / restart / update_metadata / rm_data_set / several recordings with one object; MessageManager constructed with timecode=True, debug=True, send_msg_timing=False, other addresses); (b) ALIASING and COPYING: objects handed back to the caller that share memory with internal buffers (from_buffer vs from_buffer_copy, memoryviews, slices of ctypes arrays, struct / struct-array accessors, default values shared between instances), and anything that is modified after it was queued or stored; (c) slices and indices with unusual but legal shapes (negative, stepped, empty, out-of-range that Python clamps), strings with embedded NUL or of exactly the maximum length, zero-sized arrays and messages; (d) numeric conversions between the wire format and Python (signed / unsigned, 16 / 32 / 64 bit, float32 rounding, bool); (e) behaviour after the object was used for something else before (a Client that was connected to another manager, a DataCollection that recorded before, a message object that is sent twice or modified between two sends).""",
    10: """  * This round, think like someone who wants to slip a regression past a very thorough randomized test harness that drives the real code under a simulated network, a simulated clock and a controlled thread scheduler, and that compares the observed behaviour with a small reference model of the property. Such a harness is strong on the common protocol paths and weak wherever: (a) the bug needs a particular VALUE among very many (one specific id, size, count, time stamp or byte pattern - e.g. a message type equal to some constant, a payload whose first bytes look like something else, a count that is a multiple of 256 or 65536, a module id equal to a host id); (b) the bug needs a LONG history (thousands of messages on one connection, hundreds of reconnects, many reporting intervals, a counter that overflows, a table that grows and is never pruned, a cache that fills up); (c) the bug needs three or more independent conditions at the same time; (d) the wrong behaviour is only visible much LATER than its cause (state corrupted now, symptom after the next reconnect / restart / interval); (e) the behaviour is only wrong for ONE of several equivalent-looking variants (plain vs time-code header, CONNECT vs CONNECT_V2, logger vs ordinary module, dynamic vs fixed id, first vs later sub-message, json vs raw vs quicklogger).""",
    11: """  * This round again: think like someone who wants to slip a regression past a very thorough randomized test harness that drives the real code under a simulated network, a simulated clock and a controlled thread scheduler, compares the observed behaviour with a small reference model of the property, and has already been extended after ten rounds of seeded bugs (see the list above: it now knows about long histories, boundary values, odd header fields, early subscribers, short reads and writes, copies and aliases, several objects per process). Look for what is STILL likely to be missing: (a) interactions between TWO of the listed mechanisms that were each tried alone; (b) behaviour that depends on the ORDER in which two different clients' requests are served within one select round, or on a request arriving exactly while the manager is in the middle of handling another client's departure; (c) the manager's periodic work (TIMING_MESSAGE, MESSAGE_TRAFFIC, ACTIVE_CLIENTS / CLIENT_INFO sweeps) coinciding with a client operation; (d) public options and code paths nobody has touched yet in the list above; (e) error handling of the package's own exceptions (which exception type is raised, what state the object is left in, whether the next call works).""",
    12: """  * This round again: think like someone who wants to slip a regression past a very thorough randomized test harness that drives the real code under a simulated network, a simulated clock and a controlled thread scheduler, compares the observed behaviour with a small reference model of the property, and has already been extended after eleven rounds of seeded bugs (see the list above). Look for what is STILL likely to be missing: (a) the manager's RECENTLY REWRITTEN handling of failed writes (MessageManager.write_failed / unregister_module / remove_module / _failed_writes queue / _handling_failed_writes flag in src/pyrtma/manager.py): the order in which queued failures are announced, what header / module / time each queued entry carries when it is finally handled, what happens when the same module fails twice, when a failure is found while the queue is being drained, when an exception escapes the drain loop, when the failing module is the sender of the message or a logger; (b) state that must be reset between TWO uses of the same object and is only wrong the second time; (c) behaviour that differs only when two things happen in the SAME select round or at the SAME clock value; (d) public options and code paths nobody has touched yet in the list above; (e) a change in a helper shared by several paths that is wrong only for the least used of them.""",
}


def main():
    rnd = int(sys.argv[1])
    out = sys.argv[2] if len(sys.argv) > 2 else "/tmp"
    props = {}
    for line in open(os.path.join(VERIF, "properties.jsonl")):
        if line.strip():
            p = json.loads(line)
            props[p["id"]] = p
    for pid in CLAIMED:
        p = props[pid]
        tried = []
        for d in sorted(glob.glob(os.path.join(VERIF, "seeded", pid + "-*")),
                        key=lambda x: int(x.rsplit("-", 1)[1])):
            try:
                m = json.load(open(os.path.join(d, "meta.json")))
            except Exception:
                continue
            tried.append("  - " + " ".join(str(m.get("summary", "")).split())[:420])
        wt = f"/tmp/seed_{pid}"
        od = f"/tmp/seedout{rnd}_{pid}"
        text = f"""You are helping to test a verification effort by seeding realistic bugs into a Python project. This is the {ORD.get(rnd, str(rnd) + 'th')} round: easy, obvious mutations (flipping a comparison in the main code path, deleting a whole step, changing a constant that every run exercises) and several rounds of subtle ones were already tried. We now want SUBTLE changes of kinds that have NOT been tried yet.

The project is pitt-rnel/pyrtma (Python client `src/pyrtma/client.py`, select-based pub/sub message manager server `src/pyrtma/manager.py`, message/header/validators modules, logging-over-RTMA `src/pyrtma/client_logging.py`, threaded data logger under `src/pyrtma/data_logger/`, quicklogger reader `src/pyrtma/utils/quicklogger_reader.py`). You have your OWN scratch git worktree of it at {wt} (detached HEAD). Work ONLY inside {wt} and {od}. Never touch /repo or /verif, and do not read anything under /verif.

Here is one semantic property the project is supposed to satisfy:

---
{pid}: {p['title']}

Statement: {p['statement']}

Quantifier ({', '.join(p['quantifier']['over'])}): {p['quantifier']['text']}

---

Changes that were ALREADY tried for this property in earlier rounds (do NOT repeat them or close variants of them; find different mechanisms, code paths, files or conditions):
{chr(10).join(tried)}

Your task: produce TWO independent, different changes to the project's source (under {wt}/src/pyrtma/) that each BREAK this property, while the code still imports and the project's existing test suite still passes. Requirements for this round:
  * Each change must look like a plausible mistake, optimisation or "harmless" refactoring (small diff, 1-15 lines), ideally one a reviewer would wave through.
  * Each change must need something SPECIFIC AND RARE to manifest - for example: a particular service order of connections that are ready in the same select round; a failure (peer reset / close / not-writable connection) at one particular moment or byte offset; a specific multi-step history (e.g. the third reconnect, a wrap-around after N operations, an operation repeated in a particular state); a boundary value or unusual-but-legal input (maximum size, zero length, a specific id); a clock value / timer coincidence; a particular thread interleaving; or two cooperating sites that are each fine alone. Ordinary "happy path" use (one client, a few messages) must NOT expose it. But the broken behaviour must be a violation of the property AS STATED (within its quantifier), observable through the project's public behaviour - not merely a change of an internal detail.
{FOCUS.get(rnd, FOCUS[7])}
  * The two changes must be of different kinds and touch different mechanisms (and, if you can, different files). Do not re-introduce a bug that a nearby comment or an obvious guard in the code is clearly there to prevent by simply deleting that guard - prefer breaking the mechanism in a less direct way (wrong variable, wrong scope, stale cached value, aliasing/sharing of a mutable object, off-by-one on a rarely reached bound, ordering of two statements, exception type no longer matched, state not reset on a rarely used path, and so on).

For EACH of the two changes deliver, in {od}/1 and {od}/2 respectively:
  - patch.diff : `git diff` of the change relative to the worktree's HEAD (must apply with `git apply` on a clean checkout of HEAD)
  - demo.py    : a small self-contained demonstration program (python, run as `PYTHONPATH=<checkout>/src /venv/bin/python demo.py`) that exits 0 on the unmodified HEAD and exits non-zero (printing what went wrong) when the change is applied. It may start a real MessageManager in a thread on a free localhost port and use real sockets / pyrtma.Client, drive internal methods directly, or monkeypatch time/select/sockets to force the needed condition. It must fail reliably with the change (retry loops are fine), finish within 60 seconds, and remove any temporary files or directories it creates.
  - meta.json  : {{"property": "{pid}", "summary": "<one or two sentences: what the change does>", "needs": "<the specific condition it needs in order to manifest>", "files": ["..."]}}

Procedure for each change:
  1. Make the change in {wt}.
  2. Run the existing test suite from {wt} and make sure it still passes:  cd {wt} && PYTHONPATH={wt}/src /venv/bin/python -m pytest -q -p no:cacheprovider --timeout=900 tests   (about 30 s). The integration tests bind random localhost ports and other people run the same suite concurrently on this machine, so a failure with 'Address already in use' / 'Permission denied' on bind, or a timeout, is noise: re-run (up to 3 times) before concluding. IMPORTANT: /venv has pyrtma installed in editable mode pointing at /repo/src, so you MUST set PYTHONPATH={wt}/src so that your worktree's code is imported; check with `PYTHONPATH={wt}/src /venv/bin/python -c "import pyrtma; print(pyrtma.__file__)"`.
  3. Run demo.py with the change (must fail) and, after `git -C {wt} checkout -- .` (do NOT use git stash: the stash is shared between worktrees), without it (must pass).
  4. Save `git -C {wt} diff > {od}/<n>/patch.diff` BEFORE reverting, then revert the worktree to HEAD before starting the next change.
Leave {wt} clean at the end. Keep your final answer short: for each change one line with its summary, what it needs to manifest, and whether steps 2 and 3 succeeded.
"""
        path = os.path.join(out, f"seed_prompt{rnd}_{pid}.txt")
        open(path, "w").write(text)
        os.makedirs(os.path.join(od, "1"), exist_ok=True)
        os.makedirs(os.path.join(od, "2"), exist_ok=True)
        print(path, len(tried), "tried")


if __name__ == "__main__":
    main()
