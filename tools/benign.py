#!/venv/bin/python
"""False-alarm regression: behaviour-preserving refactorings of pyrtma (the property still holds) are
applied to a scratch copy of /repo/src and the listed checks must stay silent (exit 0) on each.

  tools/benign.py [name-substring ...] [--budget S]
"""
import os
import shutil
import subprocess
import sys
import tempfile
import time

VERIF = os.path.dirname(os.path.dirname(os.path.abspath(__file__)))
M = "src/pyrtma/manager.py"
CL = "src/pyrtma/client.py"
DC = "src/pyrtma/data_logger/data_collection.py"
DS = "src/pyrtma/data_logger/data_set.py"
V = "src/pyrtma/validators.py"
MGR_CHECKS = ["C01", "C05", "C19", "C14", "C07", "C03", "C18", "C02", "C06"]

# (name, checks that must stay silent, [(file, old, new), ...])
BENIGN = [
    ("mgr_coalesced_write", MGR_CHECKS, [(M,
      "        self.conn.sendall(header)\n        self.conn.sendall(payload)",
      "        self.conn.sendall(bytes(header) + bytes(payload))")]),
    ("mgr_extra_info_log_on_subscribe", MGR_CHECKS, [(M,
      "            self.add_subscription(src_module, self.message)\n            self.send_ack(src_module)",
      "            self.add_subscription(src_module, self.message)\n            self.logger.info(f\"SUBSCRIBE from {src_module!s}\")\n            self.send_ack(src_module)")]),
    ("mgr_sorted_delivery_order", ["C01", "C05", "C14", "C07", "C19"], [(M,
      "        for n in range(len(subscribers)):\n            module = subscribers[n]",
      "        subscribers.sort(key=lambda m: (m.mod_id, m.uid))\n        for n in range(len(subscribers)):\n            module = subscribers[n]")]),
    ("mgr_client_info_before_ack", ["C19", "C06", "C01", "C07"], [(M,
      "                self.send_ack(src_module)\n                self.send_client_info(src_module)",
      "                self.send_client_info(src_module)\n                self.send_ack(src_module)")]),
    ("mgr_timing_period_1s", ["C18", "C05"], [(M,
      "        self.min_timing_message_period = 0.9", "        self.min_timing_message_period = 1.0")]),
    ("mgr_fresh_payload_copy", ["C01", "C05", "C14"], [(M,
      "            data = self.data_view[: hdr.num_data_bytes]", "            data = bytes(self.data_view[: hdr.num_data_bytes])")]),
    ("mgr_no_shuffle", ["C01", "C05", "C19", "C07"], [(M,
      "                        random.shuffle(rlist)", "                        pass  # no shuffle")]),
    ("client_filter_uses_remaining_time", ["C08", "C02", "C06"], [(CL,
      "            M = self._read_message(timeout, ack, sync_check)\n\n        return M",
      "            M = self._read_message(timeout if timeout is None or timeout <= 0 else t_rem, ack, sync_check)\n\n        return M")]),
    ("client_sets_as_frozen_copies", ["C02", "C08"], [(CL,
      "        return set(self._subscribed_types)", "        return set(frozenset(self._subscribed_types))")]),
    ("client_disconnect_sleeps_longer", ["C02", "C06"], [(CL,
      "                time.sleep(0.100)", "                time.sleep(0.250)")]),
    ("dl_writer_polls_faster", ["C17"], [(DC,
      "                if self.write_to_disk.wait(0.5):", "                if self.write_to_disk.wait(0.1):")]),
    ("dl_stage_copies_list", ["C17"], [(DS,
      "        self.wbuf = self.rbuf\n        self.rbuf = []", "        self.wbuf = list(self.rbuf)\n        self.rbuf = []")]),
    ("dl_stop_waits_in_longer_slices", ["C17"], [(DC,
      "            while not self.write_finished.wait(0.250):", "            while not self.write_finished.wait(1.0):")]),
    ("val_int_scalar_checks_bool_first", ["C09"], [(V,
      "        if not isinstance(value, int):\n            raise TypeError(f\"Expected {value} to be an int\")\n\n        if not (self._min",
      "        if not isinstance(value, int) or isinstance(value, bool) and False:\n            raise TypeError(f\"Expected {value} to be an int\")\n\n        if not (self._min")]),
    ("val_disable_uses_explicit_token_var", ["C09"], [(V,
      "        token = _VALIDATION_ENABLED.set(False)\n        try:\n            yield\n        finally:\n            _VALIDATION_ENABLED.reset(token)",
      "        tok = _VALIDATION_ENABLED.set(False)\n        try:\n            yield None\n        finally:\n            _VALIDATION_ENABLED.reset(tok)")]),
]


def main():
    args = [a for a in sys.argv[1:] if not a.startswith("--")]
    budget = "20"
    if "--budget" in sys.argv:
        budget = sys.argv[sys.argv.index("--budget") + 1]
        args = [a for a in args if a != budget]
    repo = os.environ.get("MUT_REPO", "/repo")
    sel = [b for b in BENIGN if not args or any(a in b[0] for a in args)]
    bad = 0
    for name, checks, edits in sel:
        tmp = tempfile.mkdtemp(prefix="benign_", dir="/tmp")
        try:
            shutil.copytree(os.path.join(repo, "src"), os.path.join(tmp, "src"))
            ok = True
            for path, old, new in edits:
                fp = os.path.join(tmp, path)
                s = open(fp).read()
                if s.count(old) != 1:
                    print(f"{name:40s} pattern found {s.count(old)} times in {path}")
                    ok = False
                    break
                open(fp, "w").write(s.replace(old, new))
            if not ok:
                bad += 1
                continue
            env = dict(os.environ, VERIF_REPO=tmp, VERIF_EVIDENCE_DIR=os.path.join(tmp, "ev"),
                       VERIF_REPLAY_DIR=os.path.join(tmp, "rp"))
            row = []
            for prop in checks:
                t0 = time.time()
                p = subprocess.run(["/venv/bin/python", os.path.join(VERIF, "run_check.py"), prop, "--tier", "quick",
                                    "--budget", budget, "--seed", "31"], capture_output=True, text=True, env=env,
                                   timeout=1200)
                if p.returncode != 0:
                    bad += 1
                    line = [l for l in (p.stdout + p.stderr).splitlines() if l.startswith(("violation:", "HARNESS"))][:1]
                    row.append(f"{prop}:ALARM(rc={p.returncode}) {line[0][:160] if line else ''}")
                    # keep what is needed to look into the alarm
                    keep = os.path.join("/tmp", f"benign_alarm_{name}_{prop}")
                    shutil.rmtree(keep, ignore_errors=True)
                    shutil.copytree(tmp, keep)
                    open(os.path.join(keep, "output.txt"), "w").write(p.stdout + p.stderr)
                else:
                    row.append(f"{prop}:silent")
            print(f"{name:40s} " + " ".join(row))
        finally:
            shutil.rmtree(tmp, ignore_errors=True)
    print(f"false alarms: {bad}")
    return 1 if bad else 0


if __name__ == "__main__":
    sys.exit(main())
