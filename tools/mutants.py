#!/venv/bin/python
"""Sensitivity: apply realistic one-hunk mutants to a scratch copy of /repo/src (outside /repo and
/verif), run the quick check of the property each should break with VERIF_REPO pointing at the copy,
and remove the copy.  Each mutant must be caught (exit 1 + VIOLATION line).

  tools/mutants.py [name-substring ...] [--budget S] [--tests]   (--tests: also run the 57 tests)
"""
import os
import shutil
import subprocess
import sys
import tempfile
import time

VERIF = os.path.dirname(os.path.dirname(os.path.abspath(__file__)))
M = "src/pyrtma/manager.py"
CL = "src/pyrtma/client.py"
V = "src/pyrtma/validators.py"
DC = "src/pyrtma/data_logger/data_collection.py"
DS = "src/pyrtma/data_logger/data_set.py"
QL = "src/pyrtma/data_logger/formatters/quicklogger.py"

# (name, property, file, old, new)
MUTANTS = [
    ("c01_no_logger_bypass", "C01", M,
     "                        or module.is_logger\n                    ):\n                        module.send_message(header, data)",
     "                    ):\n                        module.send_message(header, data)"),
    ("c01_forget_all_subs", "C01", M,
     "                self.subscriptions[header.msg_type],\n                self.subscriptions[ALL_MESSAGE_TYPES],",
     "                self.subscriptions[header.msg_type],"),
    ("c01_skip_sender", "C01", M,
     "            if module.conn not in self.modules:\n                continue\n            if module.conn in self.wlist:",
     "            if module.conn not in self.modules or module is src_module:\n                continue\n            if module.conn in self.wlist:"),
    ("c01_host_range_off", "C01", M,
     "if dest_host_id < 0 or dest_host_id > cd.MAX_HOSTS:", "if dest_host_id < 0 or dest_host_id > cd.MAX_HOSTS + 1:"),
    ("c01_truncate_payload", "C01", M,
     "data = self.data_view[: hdr.num_data_bytes]", "data = self.data_view[: min(hdr.num_data_bytes, 60000)]"),
    ("c05_count_before_increment", "C05", M,
     "        self.msg_count += 1\n        header.msg_count = self.msg_count\n\n        self.conn.sendall(header)\n        self.conn.sendall(payload)",
     "        header.msg_count = self.msg_count\n        self.msg_count += 1\n\n        self.conn.sendall(header)\n        self.conn.sendall(payload)"),
    ("c05_payload_before_header", "C05", M,
     "        self.conn.sendall(header)\n        self.conn.sendall(payload)",
     "        self.conn.sendall(payload)\n        self.conn.sendall(header)"),
    ("c19_ack_dest_zero", "C19", M,
     "        header.dest_mod_id = src_module.mod_id\n        header.num_data_bytes = 0\n\n        try:",
     "        header.dest_mod_id = 0\n        header.num_data_bytes = 0\n\n        try:"),
    ("c19_no_logger_copy", "C19", M,
     "        # Always forward to logger modules\n        self.send_to_loggers(header, b\"\")",
     "        # Always forward to logger modules\n        pass"),
    ("c19_ack_only_on_change", "C19", M,
     "            if src_module.sub_all:\n                return\n            self.subscriptions[sub.msg_type].add(src_module)\n            src_module.subs.add(sub.msg_type)",
     "            if src_module.sub_all:\n                return\n            if sub.msg_type in src_module.subs:\n                raise ConnectionError('dup')\n            self.subscriptions[sub.msg_type].add(src_module)\n            src_module.subs.add(sub.msg_type)"),
    ("c19_ack_module_ready", "C19", M,
     "            self.register_module_ready(src_module, self.message)\n            self.send_client_info(src_module)",
     "            self.register_module_ready(src_module, self.message)\n            self.send_ack(src_module)\n            self.send_client_info(src_module)"),
    ("c14_no_notice_on_drop", "C14", M,
     "                module.drops += 1\n                print(\"x\", end=\"\", flush=True)\n                self.send_failed_message(module, header, time.perf_counter())",
     "                module.drops += 1\n                print(\"x\", end=\"\", flush=True)"),
    ("c14_logger_skipped", "C14", M,
     "            elif module.is_logger:\n                # Block until logger is ready", "            elif False:\n                # Block until logger is ready"),
    ("c14_log_types_not_guarded", "C14", M,
     "            cd.MT_FAILED_MESSAGE,\n            cd.MT_RTMA_LOG,\n            cd.MT_RTMA_LOG_CRITICAL,\n            cd.MT_RTMA_LOG_ERROR,",
     "            cd.MT_FAILED_MESSAGE,\n            cd.MT_RTMA_LOG,\n            cd.MT_RTMA_LOG_CRITICAL,"),
    ("c14_wrong_name", "C14", M,
     "        data.dest_mod_id = dest_module.mod_id\n", "        data.dest_mod_id = header.dest_mod_id\n"),
    ("c07_disconnect_keeps_registration", "C07", M,
     "        elif msg_type == cd.MT_DISCONNECT:\n            self.disconnect_module(src_module)",
     "        elif msg_type == cd.MT_DISCONNECT:\n            for _t in src_module.subs:\n                self.subscriptions[_t].discard(src_module)\n            src_module.subs.clear()"),
    ("c07_keep_unconnected_in_table", "C07", M,
     "        module.close()\n        del self.modules[module.conn]\n        return True",
     "        module.close()\n        if module.connected or module.mod_id:\n            del self.modules[module.conn]\n        return True"),
    # (c07_forget_subscriptions -- not dropping the subscriptions of a removed module -- became equivalent with fix
    #  4928b9e: the module leaves the module table before its CLIENT_CLOSED is published, and delivery skips modules
    #  that are no longer in the table; only memory is leaked)
    ("c07_client_closed_twice", "C07", M,
     "        if self.unregister_module(module):\n            self.send_client_close(module)",
     "        if self.unregister_module(module):\n            self.send_client_close(module)\n            if module.is_logger:\n                self.send_client_close(module)"),
    ("c07_no_close_notice_on_short_read", "C07", M,
     "        if nbytes != self.header_size:\n            mod = self.modules[sock]\n            self.remove_module(mod)",
     "        if nbytes != self.header_size:\n            mod = self.modules[sock]\n            for _t in mod.subs:\n                self.subscriptions[_t].discard(mod)\n            self.logger_modules.discard(mod)\n            mod.close()\n            del self.modules[sock]"),
    ("c03_no_except_on_read", "C03", M,
     "                                except ConnectionError as err:\n                                    self.disconnect_module(src)",
     "                                except BrokenPipeError as err:\n                                    self.disconnect_module(src)"),
    ("c03_unchecked_index", "C03", M,
     "            if 0 <= mt < cd.MAX_MESSAGE_TYPES:\n                data.timing[mt] = count", "            if 0 <= mt:\n                data.timing[mt] = count"),
    ("c02_manager_ignores_pause", "C02", M,
     "            self.pause_subscription(src_module, self.message)\n            self.send_ack(src_module)",
     "            self.send_ack(src_module)"),
    ("c02_client_resume_keeps_paused", "C02", CL,
     "            else:\n                self._subscribed_types |= msg_set\n                self._paused_types -= msg_set\n        else:\n            raise TypeError",
     "            else:\n                self._subscribed_types |= msg_set\n        else:\n            raise TypeError"),
    ("c02_second_sub_all_reverted", "C02", M,
     "            src_module.subs.clear()\n\n            self.subscriptions[sub.msg_type].add(src_module)\n            src_module.subs.add(sub.msg_type)",
     "            self.subscriptions[sub.msg_type].add(src_module)\n            for sub_type in src_module.subs:\n                self.subscriptions[sub_type].discard(src_module)\n            src_module.subs.clear()\n            src_module.subs.add(sub.msg_type)"),
    ("c06_dyn_cursor_wraps_late", "C06", M,
     "            if self.next_dynamic_mod_id_offset == MAX_DYN_IDS:", "            if self.next_dynamic_mod_id_offset > MAX_DYN_IDS:"),
    ("c06_dyn_in_use_test_removed", "C06", M,
     "            if mod_id not in current_ids:\n                return mod_id", "            if True:\n                return mod_id"),
    ("c06_unique_inverted", "C06", M,
     "module.unique = msg.data.allow_multiple == 0", "module.unique = msg.data.allow_multiple != 0"),
    ("c06_client_context_positional", "C06", CL,
     "c.connect(server_name, logger_status=logger_status, allow_multiple=allow_multiple)", "c.connect(server_name, logger_status, allow_multiple)"),
    ("c06_name_check_dropped", "C06", M,
     "                    if (m.unique or module.unique) and (m.name == module.name):", "                    if False:"),
    ("c08_no_drain_on_size_mismatch", "C08", CL,
     "        if type_size != header.num_data_bytes:\n            _ = self._drain(header.num_data_bytes)\n", "        if type_size != header.num_data_bytes:\n"),
    ("c08_filter_only_once", "C08", CL,
     "                t_rem = max(timeout - (time.perf_counter() - t0), 0)\n            M = self._read_message(timeout, ack, sync_check)\n",
     "                t_rem = max(timeout - (time.perf_counter() - t0), 0)\n            M = self._read_message(timeout, ack, sync_check)\n            break\n"),
    ("c08_sync_check_ignores_mismatch", "C08", CL,
     "if sync_check and header.version != 0 and header.version != data.type_hash:", "if sync_check and header.version == 0 and header.version != data.type_hash:"),
    ("c08_short_read_keeps_connected", "C08", CL,
     "            if nbytes != header.size:\n                self._connected = False\n                raise ConnectionLost", "            if nbytes != header.size:\n                raise ConnectionLost"),
    ("c08_drain_declared_minus_one", "C08", CL,
     "            return self._sock.recv(nbytes, socket.MSG_WAITALL)", "            return self._sock.recv(max(nbytes - 1, 0), socket.MSG_WAITALL)"),
    ("c18_counts_stat_messages", "C18", M,
     "        if not self.sending_traffic.get():\n            if self.b_send_msg_timing:", "        if True:\n            if self.b_send_msg_timing:"),
    ("c18_counts_not_cleared", "C18", M,
     "                data.timing[mt] = count\n        self.message_counts.clear()", "                data.timing[mt] = count"),
    ("c18_chunk_off_by_one", "C18", M,
     "                chunk = entries[start : start + cd.MESSAGE_TRAFFIC_SIZE]", "                chunk = entries[start : start + cd.MESSAGE_TRAFFIC_SIZE - 1]"),
    ("c18_traffic_counter_not_cleared_between", "C18", M,
     "        self.traffic_counter.clear()\n        self.traffic_start = now", "        self.traffic_start = now"),
    ("c18_pid_from_wrong_module", "C18", M,
     "            data.ModulePID[mod.mod_id] = mod.pid", "            data.ModulePID[mod.mod_id] = mod.uid"),
    ("c17_stage_keeps_rbuf", "C17", DS,
     "        self.wbuf = self.rbuf\n        self.rbuf = []", "        self.wbuf = list(self.rbuf)"),
    ("c17_clear_before_write", "C17", DS,
     "        self.formatter.write(self.wbuf)\n        self.wbuf.clear()", "        self.wbuf.clear()\n        self.formatter.write(self.wbuf)"),
    ("c17_ql_offsets_reset", "C17", QL,
     "        self.num_writes += 1\n", "        self.num_writes += 1\n        self.ofs = 0\n"),
    ("c17_lock_removed", "C17", DC,
     "                    with self._write_lock:\n                        self.write_to_disk.clear()", "                    if True:\n                        self.write_to_disk.clear()"),
    ("c17_stop_does_not_wait", "C17", DC,
     "        if self.write_to_disk.is_set():\n            while not self.write_finished.wait(0.250):", "        if False:\n            while not self.write_finished.wait(0.250):"),
    ("c17_paused_still_records", "C17", DC,
     "        if self._paused or not self._recording:\n            return", "        if not self._recording:\n            return"),
    ("c17_subdivide_skips_footer_and_reopens_same", "C17", DS,
     "        new_filename = f\"{base_name}_{self.sub_index:04d}{self.formatter_cls.ext}\"", "        new_filename = f\"{base_name}_{max(self.sub_index, 2):04d}{self.formatter_cls.ext}\""),
    ("c09_contextvar_becomes_global", "C09", V,
     "_VALIDATION_ENABLED: ContextVar[bool] = ContextVar(\"_VALIDATION_ENABLED\", default=True)",
     "class _GlobalFlag:\n    def __init__(self):\n        self.v = True\n    def get(self):\n        return self.v\n    def set(self, x):\n        old = self.v\n        self.v = x\n        return old\n    def reset(self, tok):\n        self.v = tok\n\n\n_VALIDATION_ENABLED = _GlobalFlag()"),
    ("c09_write_then_validate", "C09", V,
     "    def __set__(self, obj: _P, value: Union[int, _C]):\n        if _VALIDATION_ENABLED.get():\n            self.validate_one(value)\n        setattr(obj, self._private_name, value)",
     "    def __set__(self, obj: _P, value: Union[int, _C]):\n        setattr(obj, self._private_name, value)\n        if _VALIDATION_ENABLED.get():\n            self.validate_one(value)"),
    ("c09_int_array_upper_bound_off_by_one", "C09", V,
     "        if (int(max(value)) > self._max) or (min(value) < self._min):", "        if (int(max(value)) > self._max + 1) or (min(value) < self._min):"),
    ("c09_no_finally", "C09", V,
     "        try:\n            yield\n        finally:\n            _VALIDATION_ENABLED.reset(token)", "        yield\n        _VALIDATION_ENABLED.reset(token)"),
    ("c09_string_length_off_by_one", "C09", V,
     "        if len(value) > (self.len - 1):", "        if len(value) > self.len:"),
    ("c09_struct_array_checks_first_only", "C09", V,
     "        if any(not isinstance(v, self._ctype) for v in value):\n            raise TypeError(f\"Expected {value} to be an {self._ctype.__name__}.\")",
     "        if any(not isinstance(v, self._ctype) for v in list(value)[:1]):\n            raise TypeError(f\"Expected {value} to be an {self._ctype.__name__}.\")"),
    # ---- one-hunk reversions of the fix: commits (the violation must be reported again if it returns)
    ("rev_7de2086_send_to_loggers_no_snapshot", "C03", M,
     "        for module in list(self.logger_modules):", "        for module in self.logger_modules:"),
    ("rev_951c235_forward_no_skip_removed", "C03", M,
     "            if module.conn not in self.modules:\n                continue\n            if module.conn in self.wlist:",
     "            if module.conn in self.wlist:"),
    ("rev_420e381_active_clients_no_snapshot", "C03", M,
     "enumerate(list(self.modules.items()))", "enumerate(self.modules.items())"),
    ("rev_e24b0b9_ack_removed_module", "C03", M,
     "        if src_module.conn not in self.modules:\n            return\n\n        header = self.header_cls()",
     "        header = self.header_cls()"),
    ("rev_912f894_nonascii_set_name", "C03", M,
     "            src_module.name = name_msg.name or \"\"\n        except UnicodeDecodeError:",
     "            src_module.name = name_msg.name or \"\"\n        except KeyError:"),
    ("rev_5c5a151_dyn_exhaustion", "C03", M,
     "                module.mod_id = self.assign_module_id()\n            except RuntimeError:",
     "                module.mod_id = self.assign_module_id()\n            except KeyError:"),
    ("rev_292adb4_active_clients_overflow", "C03", M,
     "            if i < cd.MAX_ACTIVE_CLIENTS:", "            if True:"),
    ("rev_0009ded_ctx_iterates_original", "C02", CL,
     "        for mt in list(msg_list):  # iterate over a copy, entries are removed below\n            if mt not in self.subscribed_types:",
     "        for mt in msg_list:\n            if mt not in self.subscribed_types:"),
    ("rev_307ad31_ctx_paused_not_restored", "C02", CL,
     "        if paused:\n            self.pause_subscription(paused)", "        if False:\n            self.pause_subscription(paused)"),
    ("rev_68f7b2b_rst_keeps_connected", "C08", CL,
     "            header.recv_time = time.perf_counter()\n        except ConnectionError:\n            self._connected = False\n            raise ConnectionLost",
     "            header.recv_time = time.perf_counter()\n        except ConnectionError:\n            raise ConnectionLost"),
    ("rev_ac95734_drain_raw_reset", "C08", CL,
     "            return self._sock.recv(nbytes, socket.MSG_WAITALL)\n        except ConnectionError:",
     "            return self._sock.recv(nbytes, socket.MSG_WAITALL)\n        except KeyError:"),
    ("rev_57e983d_float_array_maxmin", "C09", V,
     "            if any(math.isinf(self._ctype(v).value) for v in value):",
     "            if math.isinf(self._ctype(max(value)).value) or math.isinf(self._ctype(min(value)).value):"),
    ("rev_4e42bf9_traffic_first_entry_again", "C18", M,
     "                for i, (mt, count) in enumerate(chunk):\n                    data.msg_type[i] = mt\n                    data.msg_count[i] = count\n",
     "                for i, (mt, count) in enumerate(chunk):\n                    data.msg_type[i] = mt\n                    data.msg_count[i] = count\n                    if i == 0 and len(chunk) > 1:\n                        self.send_message(data)\n"),
    ("rev_double_removal_guard", "C03", M,
     "        if self.modules.get(module.conn) is not module:\n            return False\n", ""),
    ("rev_4928b9e_failures_handled_recursively", "C03", M,
     "        if self._handling_failed_writes:\n            return\n", ""),
    ("c03_size_check_off_by_one", "C03", M,
     "if data_size < 0 or data_size > len(self.data_buffer):", "if data_size < -1 or data_size > len(self.data_buffer):"),
]


def run(cmd, env=None, timeout=900):
    p = subprocess.run(cmd, capture_output=True, text=True, env=env, timeout=timeout)
    return p.returncode, p.stdout + p.stderr


def main():
    args = [a for a in sys.argv[1:] if not a.startswith("--")]
    budget = "25"
    if "--budget" in sys.argv:
        budget = sys.argv[sys.argv.index("--budget") + 1]
        args = [a for a in args if a != budget]
    with_tests = "--tests" in sys.argv
    repo = os.environ.get("MUT_REPO", "/repo")
    sel = [m for m in all_mutants() if not args or any(a in m[0] for a in args)]
    results = []
    for name, prop, path, old, new in sel:
        tmp = tempfile.mkdtemp(prefix="mut_", dir="/tmp")
        try:
            shutil.copytree(os.path.join(repo, "src"), os.path.join(tmp, "src"))
            if with_tests:
                shutil.copytree(os.path.join(repo, "tests"), os.path.join(tmp, "tests"))
            fp = os.path.join(tmp, path)
            s = open(fp).read()
            if s.count(old) != 1:
                results.append((name, prop, "PATTERN-NOT-FOUND"))
                print(f"{name:40s} {prop} pattern found {s.count(old)} times")
                continue
            open(fp, "w").write(s.replace(old, new))
            env = dict(os.environ, VERIF_REPO=tmp, VERIF_EVIDENCE_DIR=os.path.join(tmp, "ev"),
                       VERIF_REPLAY_DIR=os.path.join(tmp, "rp"))
            t0 = time.time()
            rc, out = run(["/venv/bin/python", os.path.join(VERIF, "run_check.py"), prop, "--tier", "quick",
                           "--budget", budget, "--seed", "11"], env=env)
            caught = rc == 1 and "VIOLATION property=" + prop in out
            line = [l for l in out.splitlines() if l.startswith("violation:")][:1]
            tests = ""
            if with_tests:
                env2 = dict(os.environ, PYTHONPATH=os.path.join(tmp, "src"))
                rc2, out2 = run(["/venv/bin/python", "-m", "pytest", "-q", "-p", "no:cacheprovider", "-x",
                                 os.path.join(tmp, "tests")], env=env2)
                tests = " tests=" + ("pass" if rc2 == 0 else "FAIL")
            status = "caught" if caught else ("HARNESS-ERROR" if rc == 2 else "MISSED")
            results.append((name, prop, status))
            print(f"{name:40s} {prop} {status} in {time.time() - t0:.0f}s{tests} {line[0][:150] if line else ''}")
            if rc == 2:
                print(out[-1500:])
        finally:
            shutil.rmtree(tmp, ignore_errors=True)
    missed = [r for r in results if r[2] != "caught"]
    print(f"{len(results) - len(missed)}/{len(results)} mutants caught")
    return 1 if missed else 0


def all_mutants():
    return MUTANTS


if __name__ == "__main__":
    sys.exit(main())
