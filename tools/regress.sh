#!/bin/bash
# full regression of the machinery: unchanged tree silent, every mutant / seeded change caught, benign refactorings silent
cd "$(dirname "$0")/.."
echo "== quick checks on the unchanged tree"; 
for p in C01 C02 C03 C05 C06 C07 C08 C09 C14 C17 C18 C19; do VERIF_EVIDENCE_DIR=/tmp/regress_ev VERIF_REPLAY_DIR=/tmp/regress_rp /venv/bin/python run_check.py $p --tier quick --seed ${REG_SEED:-77} 2>&1 | grep -v "^  seed" | tail -2; done
echo "== mutants"; /venv/bin/python tools/mutants.py --budget 30 2>&1 | grep -v "^  seed\|^VIOLATION\|^violation" | cut -c1-200
echo "== benign"; /venv/bin/python tools/benign.py --budget 12 2>&1 | tail -20
echo "== seeded"; /venv/bin/python tools/seeded.py --budget 45 --record 2>&1 | cut -c1-240
echo "== selftest"; /venv/bin/python run_check.py selftest --quick 2>&1 | tail -16
rm -rf /tmp/regress_ev /tmp/regress_rp
