#!/bin/bash
# thorough tier of every claimed property, one after the other (background soak)
cd "$(dirname "$0")/.."
W=${VERIF_WORKERS:-6}
B=${SOAK_BUDGET:-600}
export VERIF_EVIDENCE_DIR=${VERIF_EVIDENCE_DIR:-$PWD/soak_evidence}
export VERIF_REPLAY_DIR=${VERIF_REPLAY_DIR:-$PWD/soak_replays}
rc=0
for p in C01 C02 C03 C05 C06 C07 C08 C09 C14 C17 C18 C19; do
  /venv/bin/python run_check.py $p --tier thorough --budget $B --workers $W --seed ${SOAK_SEED:-101} || rc=$?
done
/venv/bin/python run_check.py selftest --workers $W
exit $rc
