#!/venv/bin/python
"""Write /verif/seeded/RESULTS.md from the meta.json files (which tools/seeded.py --record fills in)."""
import glob
import json
import os

VERIF = os.path.dirname(os.path.dirname(os.path.abspath(__file__)))
rows = []
def _key(path):
    b = os.path.basename(path)
    p, n = b.rsplit("-", 1)
    return (p, int(n))


for d in sorted(glob.glob(os.path.join(VERIF, "seeded", "*-*")), key=_key):
    m = json.load(open(os.path.join(d, "meta.json")))
    v = m.get("verified", {})
    rows.append((os.path.basename(d), m["property"], m.get("summary", "").replace("\n", " ").replace("|", "/"),
                 m.get("needs", "").replace("\n", " ").replace("|", "/"), v))
out = ["# Independently seeded changes and what the checks report on them", "",
       "Each row is one change written by a fresh sub-agent that saw only the property text and its own scratch",
       "worktree (round n: ids -(2n-1) and -2n).  `tools/seeded.py --record [--tests]` applies",
       "the patch in a scratch worktree, runs the author's demonstration with and without it, the repository's own",
       "tests with it, and the quick check of the property with `VERIF_REPO` pointing at the worktree.", "",
       "| id | property | change (author's summary) | needs | demo clean / changed | repo tests | check | first violation reported |",
       "|---|---|---|---|---|---|---|---|"]
for rid, prop, summ, needs, v in rows:
    out.append(f"| {rid} | {prop} | {summ[:260]} | {needs[:200]} | {v.get('demo_on_clean_tree', '?')} / "
               f"{v.get('demo_with_change', '?')} | {v.get('existing_tests_with_change', '?')} | {v.get('status', '?')} "
               f"({v.get('seconds_to_violation', '?')} s) | {str(v.get('first_violation', ''))[:200].replace('|', '/')} |")
n = sum(1 for r in rows if r[4].get("status") == "caught")
other = [r[0] + " (" + ",".join(r[4].get("caught_by") or []) + ")" for r in rows if r[4].get("status") == "caught-by-other"]
missed = [r[0] for r in rows if r[4].get("status") not in ("caught", "caught-by-other")]
out += ["", f"{n} of {len(rows)} caught by the check of their own property; caught by another property's check: "
        f"{', '.join(other) or 'none'}; not caught: {', '.join(missed) or 'none'} (see DESIGN.md section 11)."]
open(os.path.join(VERIF, "seeded", "RESULTS.md"), "w").write("\n".join(out) + "\n")
print(f"{n}/{len(rows)}")
