"""Self-tests of the machinery: determinism (same seed -> same event log, in-process, in fresh
interpreters under different PYTHONHASHSEED, at different worker counts) and conformance of the
fake socket against real loopback TCP."""
from __future__ import annotations

import json
import multiprocessing
import os
import subprocess
import sys
import time
from concurrent.futures import ProcessPoolExecutor

from .choices import Choices
from .runner import VERIF, derive_seed, execute


def digests_for(prop, seeds):
    from harness.registry import get_spec
    spec = get_spec(prop)
    spec.prepare()
    out = []
    for s in seeds:
        res, err = execute(spec, Choices(s))
        if err is not None:
            out.append("ERR:" + err.splitlines()[0])
        else:
            out.append(res.digest + ":" + str(res.n_choices))
    return out


def _pool_job(args):
    prop, seeds = args
    return digests_for(prop, seeds)


def fresh_interpreter(prop, seeds, hashseed):
    env = dict(os.environ)
    env["PYTHONHASHSEED"] = str(hashseed)
    code = ("import sys, json; sys.path.insert(0, %r); from sim.selftest import digests_for; "
            "print(json.dumps(digests_for(%r, %r)))" % (VERIF, prop, list(seeds)))
    p = subprocess.run([sys.executable, "-c", code], capture_output=True, text=True, env=env,
                       timeout=600)
    if p.returncode != 0:
        raise RuntimeError(p.stderr[-2000:])
    return json.loads(p.stdout.strip().splitlines()[-1])


def main(quick=False, workers=16, props=None) -> int:
    from harness.registry import all_props
    t0 = time.time()
    props = props or all_props()
    n = 12 if quick else 120
    bad = 0
    for prop in props:
        seeds = [derive_seed(7, i) for i in range(n)]
        a = digests_for(prop, seeds)
        b = digests_for(prop, seeds)
        errs = [x for x in a if x.startswith("ERR:")]
        if errs:
            print(f"SELFTEST {prop}: harness errors: {errs[:2]}")
            bad += 1
            continue
        if a != b:
            k = [i for i in range(n) if a[i] != b[i]]
            print(f"SELFTEST {prop}: in-process repeat diverges at seeds {[seeds[i] for i in k[:5]]}")
            bad += 1
        c = fresh_interpreter(prop, seeds, 0)
        d = fresh_interpreter(prop, seeds, 424242)
        if a != c or a != d:
            k = [i for i in range(n) if not (a[i] == c[i] == d[i])]
            print(f"SELFTEST {prop}: fresh-interpreter / PYTHONHASHSEED divergence at seeds "
                  f"{[seeds[i] for i in k[:5]]}")
            bad += 1
        ctx = multiprocessing.get_context("fork")
        for w in (1, workers):
            chunks = [seeds[i::w] for i in range(w)]
            with ProcessPoolExecutor(max_workers=w, mp_context=ctx) as ex:
                res = list(ex.map(_pool_job, [(prop, ch) for ch in chunks]))
            merged = {}
            for ch, r in zip(chunks, res):
                for s, dg in zip(ch, r):
                    merged[s] = dg
            e = [merged[s] for s in seeds]
            if e != a:
                print(f"SELFTEST {prop}: divergence with {w} workers")
                bad += 1
        print(f"selftest {prop}: {n} seeds x (2 in-process + 2 fresh interpreters + pools of 1 and "
              f"{workers}) identical={'yes' if not bad else 'NO'} distinct={len(set(a))}")
    from . import conformance
    bad += conformance.main()
    print(f"selftest done in {time.time() - t0:.1f}s: {'OK' if not bad else 'FAILED'}")
    return 0 if not bad else 2
