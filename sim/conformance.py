"""Socket conformance: the same scripted scenarios run against the SimNet fake and against real
loopback TCP; outcomes must match (DESIGN.md section 8 / appendix A)."""
from __future__ import annotations

import select as real_select
import socket as real_socket
import time

from .choices import Choices
from .net import Clock, SimNet, SimSocket


class _W:
    """minimal world for the fake: no tasks, arrivals are explicit"""

    def __init__(self):
        self.choices = Choices(replay=[1] * 1000)   # 'rst arrived' = yes whenever asked
        self.clock = Clock()
        self.peer_read_hook = None

    def block_in_recv(self, sock, n):
        raise BlockingIOError("would block")


class RealEnv:
    name = "real"

    def __init__(self):
        self.lst = real_socket.socket(real_socket.AF_INET, real_socket.SOCK_STREAM)
        self.lst.setsockopt(real_socket.SOL_SOCKET, real_socket.SO_REUSEADDR, 1)
        self.lst.bind(("127.0.0.1", 0))
        self.lst.listen(16)
        self.port = self.lst.getsockname()[1]
        self.all = [self.lst]

    def pair(self):
        c = real_socket.socket(real_socket.AF_INET, real_socket.SOCK_STREAM)
        c.connect(("127.0.0.1", self.port))
        s, _ = self.lst.accept()
        s.settimeout(2.0)
        c.settimeout(2.0)
        self.all += [c, s]
        return s, c

    def settle(self, *socks):
        time.sleep(0.05)

    def rst_close(self, sock):
        import struct
        sock.setsockopt(real_socket.SOL_SOCKET, real_socket.SO_LINGER, struct.pack("ii", 1, 0))
        sock.close()

    def select(self, r, w, t):
        rr, ww, _ = real_select.select(r, w, [], t)
        return rr, ww

    def done(self):
        for s in self.all:
            try:
                s.close()
            except Exception:
                pass


class FakeEnv:
    name = "fake"

    def __init__(self):
        self.w = _W()
        self.net = SimNet(self.w)
        self.lst = SimSocket(self.net, "mgr")
        self.lst.bind(("127.0.0.1", 7111))
        self.lst.listen(16)

    def pair(self):
        c = SimSocket(self.net, "peer")
        c.connect(("127.0.0.1", 7111))
        s, _ = self.lst.accept()
        return s, c

    def settle(self, *socks):
        for s in socks:
            if not s.closed:
                s.arrive()
                if s.rx_rst == 1:
                    s.arrive_rst_now()
        # an RST provoked by a write into a FIN-closed peer has arrived by now
        for s in socks:
            if not s.closed and s.peer.closed and s.wr_after_fin:
                s.rx_rst = 2
                s.rst_reported = True   # surfaces as EPIPE on the next write (kernel behaviour)

    def rst_close(self, sock):
        sock.die("rst")

    def select(self, r, w, t):
        for s in list(r) + list(w):
            if s.closed:
                raise ValueError("file descriptor cannot be a negative integer (-1)")
        rr = [s for s in r if s.readable()]
        ww = [s for s in w if s.kind == "conn"]
        return rr, ww

    def done(self):
        pass


def outcome(fn):
    try:
        return ("ok", fn())
    except BaseException as e:
        return (type(e).__name__, getattr(e, "errno", None) if isinstance(e, OSError) else str(e))


W = real_socket.MSG_WAITALL


def scenarios(env):
    out = {}
    # 1 argument validation
    s, c = env.pair()
    buf = bytearray(8)
    out["recv_into_negative"] = outcome(lambda: s.recv_into(buf, -1, W))
    out["recv_into_too_big"] = outcome(lambda: s.recv_into(buf, 9, W))
    # 2 WAITALL returns the partial count on FIN
    c.sendall(b"abc")
    c.close()
    env.settle(s)
    out["waitall_partial_on_fin"] = outcome(lambda: s.recv_into(buf, 8, W))
    out["waitall_eof_again"] = outcome(lambda: s.recv_into(buf, 8, W))
    # 3 first write after the peer's FIN succeeds, later ones fail with EPIPE
    out["write_after_fin_1"] = outcome(lambda: s.sendall(b"x" * 10))
    env.settle(s)
    out["write_after_fin_2"] = outcome(lambda: s.sendall(b"x" * 10))
    out["write_after_fin_3"] = outcome(lambda: s.sendall(b"x" * 10))
    # 4 RST: buffered data first, then ECONNRESET on read
    s, c = env.pair()
    c.sendall(b"hello")
    env.settle(s)
    env.rst_close(c)
    env.settle(s)
    out["rst_buffered_first"] = outcome(lambda: s.recv_into(buf, 8, W))
    out["rst_then_error"] = outcome(lambda: s.recv_into(buf, 8, W))
    out["rst_then_eof"] = outcome(lambda: s.recv_into(buf, 8, W))
    # 5 RST: first write ECONNRESET, later EPIPE
    s, c = env.pair()
    env.rst_close(c)
    env.settle(s)
    out["rst_select"] = outcome(lambda: tuple(len(x) for x in env.select([s], [s], 0)))
    out["rst_write_1"] = outcome(lambda: s.sendall(b"y"))
    out["rst_write_2"] = outcome(lambda: s.sendall(b"y"))
    # 6 locally closed socket: EBADF (an OSError that is not a ConnectionError)
    s, c = env.pair()
    s.close()
    out["ebadf_send"] = outcome(lambda: s.sendall(b"z"))
    out["ebadf_recv"] = outcome(lambda: s.recv_into(buf, 1, W))
    out["ebadf_is_connection_error"] = isinstance(OSError(9, "x"), ConnectionError)
    out["select_closed"] = outcome(lambda: env.select([s], [], 0))
    # 7 close with unread data resets the peer
    s, c = env.pair()
    c.sendall(b"unread")
    env.settle(s)
    s.close()
    env.settle(c)
    out["close_unread_peer_read"] = outcome(lambda: c.recv(4, W))
    # 8 orderly close: the peer reads EOF
    s, c = env.pair()
    s.close()
    env.settle(c)
    out["close_clean_peer_read"] = outcome(lambda: c.recv(4, W))
    out["fin_select_readable"] = outcome(lambda: tuple(len(x) for x in env.select([c], [], 0)))
    # 9 zero-length reads / writes
    s, c = env.pair()
    out["recv_zero"] = outcome(lambda: s.recv(0, W))
    out["send_empty"] = outcome(lambda: s.sendall(b""))
    # 10 data, then FIN: all data, then EOF; listener readable only with a pending connection
    c.sendall(b"12345678")
    env.settle(s)
    out["select_data"] = outcome(lambda: tuple(len(x) for x in env.select([s, env.lst], [], 0)))
    out["read_exact"] = outcome(lambda: (s.recv_into(buf, 8, W), bytes(buf)))
    # 11 shutdown: fine on a live connection and after the peer's FIN, ENOTCONN after the peer's reset,
    #    EBADF on a socket closed locally
    s, c = env.pair()
    out["shutdown_live"] = outcome(lambda: s.shutdown(real_socket.SHUT_RDWR))
    env.settle(c)
    out["shutdown_peer_reads_eof"] = outcome(lambda: c.recv(4, W))
    s, c = env.pair()
    c.close()
    env.settle(s)
    out["shutdown_after_fin"] = outcome(lambda: s.shutdown(real_socket.SHUT_RDWR))
    s, c = env.pair()
    env.rst_close(c)
    env.settle(s)
    out["shutdown_after_rst"] = outcome(lambda: s.shutdown(real_socket.SHUT_RDWR))
    s.close()
    out["shutdown_closed"] = outcome(lambda: s.shutdown(real_socket.SHUT_RDWR))
    # 12 MSG_PEEK leaves the data in place; a plain recv returns what is there
    s, c = env.pair()
    c.sendall(b"abcde")
    env.settle(s)
    out["peek"] = outcome(lambda: s.recv(3, real_socket.MSG_PEEK))
    out["peek_again_more"] = outcome(lambda: s.recv(16, real_socket.MSG_PEEK))
    out["plain_recv_partial"] = outcome(lambda: s.recv(16))
    c.close()
    env.settle(s)
    out["peek_at_eof"] = outcome(lambda: s.recv(3, real_socket.MSG_PEEK))
    env.done()
    return out


def main() -> int:
    try:
        real = scenarios(RealEnv())
    except OSError as e:
        print(f"conformance: real loopback TCP unavailable ({e}); skipped")
        return 0
    fake = scenarios(FakeEnv())
    bad = 0
    for k in real:
        if real[k] != fake.get(k):
            print(f"CONFORMANCE MISMATCH {k}: real={real[k]} fake={fake.get(k)}")
            bad += 1
    print(f"conformance: {len(real)} scenarios against real loopback TCP, mismatches={bad}")
    return 1 if bad else 0


if __name__ == "__main__":
    raise SystemExit(main())
