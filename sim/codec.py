"""Independent wire codec of the documented RTMA header (not pyrtma.header).

plain header   48 bytes  <iiddhhhhiiiI
timecode       56 bytes  <iiddhhhhiiiIII
"""
from __future__ import annotations

import struct
from collections import namedtuple

HDR_FMT = "<iiddhhhhiiiI"
HDR_TC_FMT = "<iiddhhhhiiiIII"
HDR_SIZE = struct.calcsize(HDR_FMT)
HDR_TC_SIZE = struct.calcsize(HDR_TC_FMT)
assert HDR_SIZE == 48 and HDR_TC_SIZE == 56

Hdr = namedtuple(
    "Hdr",
    "msg_type msg_count send_time recv_time src_host_id src_mod_id dest_host_id dest_mod_id "
    "num_data_bytes remaining_bytes is_dynamic reserved utc_seconds utc_fraction",
)

# protocol constants (from the documented core definitions; re-stated, not imported)
MT_EXIT = 0
MT_KILL = 1
MT_ACKNOWLEDGE = 2
MT_CONNECT_V2 = 4
MT_FAIL_SUBSCRIBE = 6
MT_FAILED_MESSAGE = 8
MT_CONNECT = 13
MT_DISCONNECT = 14
MT_SUBSCRIBE = 15
MT_UNSUBSCRIBE = 16
MT_MODULE_READY = 26
MT_MESSAGE_TRAFFIC = 30
MT_ACTIVE_CLIENTS = 31
MT_CLIENT_INFO = 32
MT_CLIENT_CLOSED = 33
MT_CLIENT_SET_NAME = 34
MT_RTMA_LOG = 40
MT_RTMA_LOG_CRITICAL = 41
MT_RTMA_LOG_ERROR = 42
MT_RTMA_LOG_WARNING = 43
MT_RTMA_LOG_INFO = 44
MT_RTMA_LOG_DEBUG = 45
MT_TIMING_MESSAGE = 80
MT_FORCE_DISCONNECT = 82
MT_PAUSE_SUBSCRIPTION = 85
MT_RESUME_SUBSCRIPTION = 86
ALL_MESSAGE_TYPES = 2147483647
MAX_MODULES = 200
DYN_MOD_ID_START = 100
MAX_HOSTS = 5
MAX_MESSAGE_TYPES = 10000
MESSAGE_TRAFFIC_SIZE = 64
LOG_TYPES = (40, 41, 42, 43, 44, 45)
CONTROL_TYPES = (MT_CONNECT, MT_CONNECT_V2, MT_DISCONNECT, MT_SUBSCRIBE, MT_UNSUBSCRIBE,
                 MT_PAUSE_SUBSCRIPTION, MT_RESUME_SUBSCRIPTION, MT_CLIENT_SET_NAME, MT_MODULE_READY)
ACKED_TYPES = (MT_SUBSCRIBE, MT_UNSUBSCRIBE, MT_PAUSE_SUBSCRIPTION, MT_RESUME_SUBSCRIPTION)


def hdr_size(timecode: bool) -> int:
    return HDR_TC_SIZE if timecode else HDR_SIZE


def pack_hdr(timecode: bool, msg_type=0, msg_count=0, send_time=0.0, recv_time=0.0,
             src_host_id=0, src_mod_id=0, dest_host_id=0, dest_mod_id=0, num_data_bytes=0,
             remaining_bytes=0, is_dynamic=0, reserved=0, utc_seconds=0, utc_fraction=0) -> bytes:
    if timecode:
        return struct.pack(HDR_TC_FMT, msg_type, msg_count, send_time, recv_time, src_host_id,
                           src_mod_id, dest_host_id, dest_mod_id, num_data_bytes,
                           remaining_bytes, is_dynamic, reserved, utc_seconds, utc_fraction)
    return struct.pack(HDR_FMT, msg_type, msg_count, send_time, recv_time, src_host_id,
                       src_mod_id, dest_host_id, dest_mod_id, num_data_bytes, remaining_bytes,
                       is_dynamic, reserved)


def unpack_hdr(timecode: bool, raw) -> Hdr:
    if timecode:
        return Hdr(*struct.unpack_from(HDR_TC_FMT, raw))
    return Hdr(*struct.unpack_from(HDR_FMT, raw), 0, 0)


# payload codecs of the control messages ------------------------------------------------
def pack_connect(logger_status=0, daemon_status=0) -> bytes:
    return struct.pack("<hh", logger_status, daemon_status)


def pack_connect_v2(logger_status=0, daemon_status=0, allow_multiple=0, mod_id=0, pid=0,
                    name: bytes = b"") -> bytes:
    return struct.pack("<hhhhi32s", logger_status, daemon_status, allow_multiple, mod_id, pid,
                       name)


def pack_sub(msg_type: int) -> bytes:
    return struct.pack("<i", msg_type)


def pack_module_ready(pid: int) -> bytes:
    return struct.pack("<i", pid)


def pack_set_name(name: bytes) -> bytes:
    return struct.pack("<32s", name)


ClientInfo = namedtuple("ClientInfo", "addr uid pid mod_id is_logger is_unique port name")


def unpack_client_info(raw) -> ClientInfo:
    addr, uid, pid, mod_id, is_logger, is_unique, port, name = struct.unpack_from(
        "<32siihhhH32s", raw)
    return ClientInfo(addr.split(b"\0", 1)[0], uid, pid, mod_id, is_logger, is_unique, port,
                      name.split(b"\0", 1)[0])


FailedMsg = namedtuple("FailedMsg", "dest_mod_id time_of_failure hdr")


def unpack_failed_message(raw) -> FailedMsg:
    dest_mod_id, _r0, _r1, _r2, tof = struct.unpack_from("<hhhhd", raw)
    return FailedMsg(dest_mod_id, tof, unpack_hdr(False, raw[16:64]))


def split_frames(timecode: bool, stream):
    """Parse a byte stream into (frames, leftover_bytes).  frames: [(Hdr, payload bytes)]."""
    hs = hdr_size(timecode)
    mv = memoryview(stream)
    n = len(mv)
    pos = 0
    out = []
    while n - pos >= hs:
        h = unpack_hdr(timecode, mv[pos:pos + hs])
        ln = h.num_data_bytes
        if ln < 0 or n - pos - hs < ln:
            break
        out.append((h, bytes(mv[pos + hs:pos + hs + ln])))
        pos += hs + ln
    return out, bytes(mv[pos:])
