"""SimNet: in-process TCP model + fake ``socket`` / ``select`` / ``time`` / ``random`` modules.

Transport keeps TCP's guarantees (per-direction FIFO byte streams, no loss/dup/reorder).
The simulator varies what TCP leaves open: delay / batching / segmentation of arrivals,
service order, writability, departure (DISCONNECT / FIN / RST / death mid-frame), write
failures, accept bursts and the clock.  See DESIGN.md section 3.3 and appendix A.
"""
from __future__ import annotations

import errno
import socket as _real_socket
import zlib
from typing import Dict, List, Optional

from .baton import SimInternalError, SimShutdown
from .codec import Hdr, hdr_size, unpack_hdr, LOG_TYPES


class SimStall(BaseException):
    """Every task is blocked and nothing can ever arrive (harness error, not a violation)."""


class Clock:
    __slots__ = ("now", "epoch", "advanced")

    def __init__(self):
        self.now = 1000.0          # perf_counter value
        self.epoch = 1_700_000_000.0  # time.time() = epoch + now  (different epochs on purpose)
        self.advanced = 0.0

    def advance(self, dt: float):
        if dt > 0:
            self.now += dt
            self.advanced += dt


class FrameRec:
    """One frame read by / written by the manager (as seen at the socket seam)."""
    __slots__ = ("seq", "conn", "round", "hdr", "payload", "complete", "ok", "done_seq", "t")

    def __init__(self, seq, conn, rnd, hdr):
        self.t = 0.0
        self.seq = seq
        self.conn = conn
        self.round = rnd
        self.hdr: Hdr = hdr
        self.payload = b""
        self.complete = False
        self.ok = True
        self.done_seq = seq

    def __repr__(self):
        h = self.hdr
        return (f"<F seq={self.seq} c={self.conn} r={self.round} mt={h.msg_type} src={h.src_mod_id} "
                f"dst={h.dest_mod_id}/{h.dest_host_id} n={h.num_data_bytes} cnt={h.msg_count}>")


class SimSocket:
    """One endpoint.  ``rx_*`` describe the pipe *towards* this endpoint."""

    def __init__(self, net: "SimNet", side: str):
        self.net = net
        self.side = side              # 'mgr' | 'peer'
        self.idx = net._next_idx()
        self.kind = "fresh"           # fresh | listen | conn
        self.peer: Optional[SimSocket] = None
        self.closed = False
        self.port = 0
        self.backlog: List[SimSocket] = []
        # pipe towards me
        self.rx_inflight = bytearray()
        self.rx_arrived = bytearray()
        self.rx_fin = 0               # 0 none, 1 in flight (after data), 2 arrived
        self.rx_rst = 0               # 0 none, 1 in flight, 2 arrived
        self.rst_reported = False     # the ECONNRESET was handed to the application once
        self.short_once = False       # next MSG_WAITALL read returns short although the stream goes on
        self.wr_after_fin = 0         # writes that went into the void after the peer's FIN
        self.starve = 0
        # armed write fault (peer dies after k more bytes of what I send)
        self.fault_after: Optional[int] = None
        self.fault_kind = "rst"
        self.write_failed = False     # simulator injected / reported a write failure here
        # frame parsers (manager side only)
        self.rd_buf = bytearray()
        self.rd_frame: Optional[FrameRec] = None
        self.rd_count = 0
        self.tx_buf = bytearray()
        self.tx_frames: List[FrameRec] = []
        self.tx_bytes_ok = 0
        self.rx_total = 0             # bytes ever appended towards me (peer side: full stream)
        self.rx_log = bytearray()     # peer side: everything the other end successfully sent me
        self.accepted = False
        self.sh_hdr = None
        self.sh_buf = bytearray()
        self.timeout = None
        self.tag = None               # harness label (actor name)

    # identity -----------------------------------------------------------------
    def __hash__(self):
        return self.idx

    def __eq__(self, other):
        return self is other

    def __repr__(self):
        return f"<SimSocket {self.side}#{self.idx}{' closed' if self.closed else ''}>"

    def fileno(self):
        return -1 if self.closed else 1000 + self.idx

    # plumbing -----------------------------------------------------------------
    def _ebadf(self):
        return OSError(errno.EBADF, "Bad file descriptor")

    def bind(self, addr):
        if self.closed:
            raise self._ebadf()
        self.port = int(addr[1])
        self.net.bound[self.port] = self

    def listen(self, backlog=0):
        if self.closed:
            raise self._ebadf()
        self.kind = "listen"
        self.net.listeners[self.port] = self

    def setsockopt(self, *a):
        if self.closed:
            raise self._ebadf()

    def getsockname(self):
        if self.closed:
            raise self._ebadf()
        return ("127.0.0.1", self.port)

    def getpeername(self):
        if self.closed:
            raise self._ebadf()
        if self.kind != "conn" or self.peer is None or self.rx_rst:
            # (a connection the peer has already reset is no longer connected)
            raise OSError(errno.ENOTCONN, "Transport endpoint is not connected")
        return ("127.0.0.1", self.peer.port)

    def settimeout(self, t):
        if self.closed:
            raise self._ebadf()
        # a socket with a timeout is non-blocking underneath: MSG_WAITALL no longer waits for everything
        self.timeout = t

    def gettimeout(self):
        return getattr(self, "timeout", None)

    def setblocking(self, flag):
        self.timeout = None if flag else 0.0

    def connect(self, addr):
        if self.closed:
            raise self._ebadf()
        net = self.net
        lst = net.listeners.get(int(addr[1]))
        if lst is None or lst.closed:
            raise ConnectionRefusedError(errno.ECONNREFUSED, "Connection refused")
        other = SimSocket(net, lst.side)
        other.kind = "conn"
        other.port = lst.port
        self.kind = "conn"
        self.port = 40000 + (self.idx % 20000)     # (ephemeral ports are 16-bit and get reused)
        self.peer = other
        other.peer = self
        lst.backlog.append(other)
        net.log("CONNECT", self.idx, other.idx)

    def accept(self):
        if self.closed:
            raise self._ebadf()
        if not self.backlog:
            raise SimInternalError("accept() with empty backlog would block")
        conn = self.backlog.pop(0)
        conn.accepted = True
        self.net.mgr_socks[conn.idx] = conn
        self.net.log("ACCEPT", conn.idx)
        self.net.stats["accepts"] += 1
        return conn, ("127.0.0.1", conn.peer.port)

    # readiness ----------------------------------------------------------------
    def readable(self) -> bool:
        if self.kind == "listen":
            return bool(self.backlog)
        return bool(self.rx_arrived) or self.rx_fin == 2 or self.rx_rst == 2

    def pending_towards(self) -> bool:
        """Anything written towards me that has not been consumed / noticed yet."""
        if self.kind == "listen":
            return bool(self.backlog)
        return bool(self.rx_inflight) or bool(self.rx_arrived) or self.rx_fin in (1, 2) or self.rx_rst in (1, 2)

    # arrival (scheduler decisions) ---------------------------------------------
    def arrive(self, nbytes: Optional[int] = None):
        """Move ``nbytes`` (default all) from in flight to arrived; FIN/RST follow in pipe order."""
        if nbytes is None or nbytes >= len(self.rx_inflight):
            if self.rx_inflight:
                self.rx_arrived += self.rx_inflight
                del self.rx_inflight[:]
            if self.rx_fin == 1:
                self.rx_fin = 2
            if self.rx_rst == 1:
                self.rx_rst = 2
        elif nbytes > 0:
            self.rx_arrived += self.rx_inflight[:nbytes]
            del self.rx_inflight[:nbytes]
        self.starve = 0

    def arrive_rst_now(self):
        """An RST overtakes undelivered data (the sender's kernel discarded it)."""
        if self.rx_rst == 1:
            del self.rx_inflight[:]
            self.rx_rst = 2

    # reading ------------------------------------------------------------------
    def _take(self, n: int) -> bytes:
        data = bytes(self.rx_arrived[:n])
        del self.rx_arrived[:n]
        return data

    def _recv_core(self, n: int) -> bytes:
        """MSG_WAITALL semantics; may block (scheduling point)."""
        net = self.net
        while True:
            if self.closed:
                raise self._ebadf()
            if self.short_once and self.side == "mgr" and n > 1 and self.rx_arrived:
                # a MSG_WAITALL read that comes back short although the stream has not ended (as after a signal
                # that arrives when part of the data has been received): armed by a harness, fires once
                self.short_once = False
                net.stats["waitall_short"] = net.stats.get("waitall_short", 0) + 1
                return self._take(min(len(self.rx_arrived), n - 1))
            if len(self.rx_arrived) >= n:
                return self._take(n)
            if self.rx_rst == 2:
                if self.rx_arrived:
                    return self._take(len(self.rx_arrived))
                if not self.rst_reported:
                    self.rst_reported = True
                    raise ConnectionResetError(errno.ECONNRESET, "Connection reset by peer")
                return b""
            if self.rx_fin == 2:
                return self._take(len(self.rx_arrived))
            net.block_in_recv(self, n)

    def recv_into(self, buf, nbytes=0, flags=0):
        mv = memoryview(buf).cast("B")
        if nbytes < 0:
            raise ValueError("negative buffersize in recv_into")
        if nbytes > len(mv):
            raise ValueError("buffer too small for requested bytes")
        if nbytes == 0:
            nbytes = len(mv)
        if nbytes == 0:
            return 0
        if flags & _real_socket.MSG_PEEK:
            data = self._peek(nbytes)
            mv[:len(data)] = data
            return len(data)
        waitall = bool(flags & _real_socket.MSG_WAITALL) and self.timeout is None
        try:
            if waitall:
                data = self._recv_core(nbytes)
            else:
                data = self._recv_some(nbytes)
        except ConnectionResetError:
            if self.side == "mgr":
                self.net.on_mgr_read_end(self, "rst")
            raise
        mv[:len(data)] = data
        if self.side == "mgr":
            # only a MSG_WAITALL read that comes back short, or a plain read that comes back empty, means the
            # stream has ended; a plain read may legitimately return part of what was asked for
            self.net.on_mgr_read(self, data, nbytes, eof=(len(data) < nbytes) if waitall else (len(data) == 0))
        else:
            self.net.on_peer_read(self, data, nbytes)
        return len(data)

    def _peek(self, n: int) -> bytes:
        """MSG_PEEK: what has arrived (at most n bytes) without consuming it; waits while nothing is there"""
        while True:
            if self.closed:
                raise self._ebadf()
            if self.rx_arrived:
                return bytes(self.rx_arrived[:n])
            if self.rx_rst == 2:
                if not self.rst_reported:
                    raise ConnectionResetError(errno.ECONNRESET, "Connection reset by peer")
                return b""
            if self.rx_fin == 2:
                return b""
            self.net.block_in_recv(self, 1)

    def recv(self, nbytes, flags=0):
        if nbytes < 0:
            raise ValueError("negative buffersize in recv")
        if nbytes == 0:
            return b""
        if flags & _real_socket.MSG_PEEK:
            return self._peek(nbytes)
        waitall = bool(flags & _real_socket.MSG_WAITALL) and self.timeout is None
        if waitall:
            data = self._recv_core(nbytes)
        else:
            data = self._recv_some(nbytes)
        if self.side == "mgr":
            self.net.on_mgr_read(self, data, nbytes, eof=(len(data) < nbytes) if waitall else (len(data) == 0))
        else:
            self.net.on_peer_read(self, data, nbytes)
        return data

    def _recv_some(self, n: int) -> bytes:
        """plain recv(): whatever has arrived, at most n bytes; blocks only while nothing is there"""
        while True:
            if self.closed:
                raise self._ebadf()
            if self.rx_arrived:
                return self._take(min(n, len(self.rx_arrived)))
            if self.rx_rst == 2:
                if not self.rst_reported:
                    self.rst_reported = True
                    raise ConnectionResetError(errno.ECONNRESET, "Connection reset by peer")
                return b""
            if self.rx_fin == 2:
                return b""
            self.net.block_in_recv(self, 1)

    # writing ------------------------------------------------------------------
    def sendall(self, data, flags=0, _retry=False):
        if self.closed:
            raise self._ebadf()
        if flags and (flags & _real_socket.MSG_DONTWAIT) and self.kind == "conn" and not self.peer.closed \
                and self.rx_rst != 2 and not _retry:
            # a non-blocking send may take only part of the data (buggify: a usually-successful
            # call returns a retryable error after k bytes)
            data = bytes(data)
            if len(data) > 1 and self.net.choices.flag("net.dontwait_partial", 1, 4):
                k = self.net.choices.pick("net.dontwait_k", len(data))
                if k:
                    self.sendall(data[:k])
                self.net.log("WOULD_BLOCK", self.idx, k, len(data))
                self.net.stats["would_block"] = self.net.stats.get("would_block", 0) + 1
                raise BlockingIOError(errno.EAGAIN, "Resource temporarily unavailable")
        if self.kind != "conn":
            raise OSError(errno.ENOTCONN, "Transport endpoint is not connected")
        data = bytes(data)
        net = self.net
        peer = self.peer
        if self.side == "mgr" and not _retry:
            # shadow parser over every attempted write (successful or not): which frame is this?
            # (a byte-stream parser, so it does not depend on how the writer chunks its sendall calls)
            buf = self.sh_buf
            buf += data
            hs = net.hs
            while len(buf) >= hs:
                h = unpack_hdr(net.timecode, buf)
                self.sh_hdr = h
                need = hs + max(0, h.num_data_bytes)
                if len(buf) >= need:
                    del buf[:need]
                else:
                    break
        # 1. an RST has already reached me
        if self.rx_rst == 2:
            self.write_failed = True
            if not self.rst_reported:
                self.rst_reported = True
                net.on_write_fail(self, 0, "ECONNRESET", data)
                if net.abort_errno:
                    net.stats["write_fail_econnaborted"] = net.stats.get("write_fail_econnaborted", 0) + 1
                    raise ConnectionAbortedError(errno.ECONNABORTED, "Software caused connection abort")
                raise ConnectionResetError(errno.ECONNRESET, "Connection reset by peer")
            net.on_write_fail(self, 0, "EPIPE", data)
            raise BrokenPipeError(errno.EPIPE, "Broken pipe")
        # 2. the peer is gone but I may not know yet
        if peer.closed:
            if self.rx_rst == 1:
                # RST in flight: scheduler decides whether it has arrived by now
                if net.choices.flag("net.rst_arrived", 1, 2):
                    self.arrive_rst_now()
                    return self.sendall(data, 0, True)
                net.on_write_void(self, len(data))
                return None
            # orderly FIN from the peer: the first write goes into the void and provokes an RST
            if self.wr_after_fin == 0 or not net.choices.flag("net.rst_arrived", 1, 2):
                self.wr_after_fin += 1
                net.on_write_void(self, len(data))
                return None
            self.write_failed = True
            self.rst_reported = True
            net.on_write_fail(self, 0, "EPIPE", data)
            raise BrokenPipeError(errno.EPIPE, "Broken pipe")
        # 3. armed fault: the peer dies after k more bytes
        if self.fault_after is not None:
            k = self.fault_after
            if k < len(data):
                if k > 0:
                    net.deliver_to(self, peer, data[:k])
                self.fault_after = None
                self.write_failed = True
                kind = self.fault_kind
                peer.die(kind)
                self.arrive_rst_now() if kind == "rst" else None
                if kind == "rst":
                    self.rst_reported = True
                    net.on_write_fail(self, k, "ECONNRESET", data)
                    if net.abort_errno:
                        net.stats["write_fail_econnaborted"] = net.stats.get("write_fail_econnaborted", 0) + 1
                        raise ConnectionAbortedError(errno.ECONNABORTED, "Software caused connection abort")
                    raise ConnectionResetError(errno.ECONNRESET, "Connection reset by peer")
                self.rst_reported = True
                net.on_write_fail(self, k, "EPIPE", data)
                raise BrokenPipeError(errno.EPIPE, "Broken pipe")
            self.fault_after = k - len(data)
        net.deliver_to(self, peer, data)
        return None

    def send(self, data, flags=0):
        """send() may take only part of the data and says so by its return value (the caller has to go on with
        the rest); the scheduler decides how much"""
        data = bytes(data)
        if self.side == "mgr" and len(data) > 1 and self.kind == "conn" and not self.closed \
                and self.net.choices.flag("net.send_short", 1, 3):
            k = 1 + self.net.choices.pick("net.send_k", len(data) - 1)
            self.sendall(data[:k])
            self.net.stats["short_send"] = self.net.stats.get("short_send", 0) + 1
            return k
        self.sendall(data)
        return len(data)

    def sendmsg(self, buffers, ancdata=(), flags=0, address=None):
        """one gather write; like send() it may transfer only part of the data and says so by its
        return value instead of raising"""
        data = b"".join(bytes(b) for b in buffers)
        if self.closed:
            raise self._ebadf()
        if self.fault_after is not None and 0 < self.fault_after < len(data) and self.kind == "conn" \
                and not self.peer.closed and self.rx_rst != 2:
            k = self.fault_after
            net = self.net
            if self.side == "mgr":
                buf = self.sh_buf
                buf += data
                hs = net.hs
                while len(buf) >= hs:
                    h = unpack_hdr(net.timecode, buf)
                    self.sh_hdr = h
                    need = hs + max(0, h.num_data_bytes)
                    if len(buf) >= need:
                        del buf[:need]
                    else:
                        break
            net.deliver_to(self, self.peer, data[:k])
            self.fault_after = None
            self.write_failed = True
            kind = self.fault_kind
            self.peer.die(kind)
            if kind == "rst":
                self.arrive_rst_now()
            net.on_write_fail(self, k, "SHORT", data)     # the simulator injected a failure here
            return k
        self.sendall(data, flags)
        return len(data)

    # closing ------------------------------------------------------------------
    def close(self):
        if self.closed:
            return
        self.closed = True
        net = self.net
        if self.kind == "listen":
            net.listeners.pop(self.port, None)
            for c in self.backlog:
                c.closed = True
                if c.peer is not None:
                    c.peer.rx_rst = 1
            net.log("LCLOSE", self.idx)
            return
        if self.kind != "conn":
            return
        peer = self.peer
        unread = bool(self.rx_arrived) or bool(self.rx_inflight)
        if self.side == "mgr":
            net.on_mgr_close(self, unread)
        if peer is not None and not peer.closed:
            if unread:
                # kernel behaviour: close with unread data sends RST
                peer.rx_rst = 1
                if peer.side == "peer":
                    peer.arrive_rst_now()
            else:
                peer.rx_fin = 1
                if peer.side == "peer":
                    peer.arrive()
        del self.rx_arrived[:]
        del self.rx_inflight[:]

    def die(self, kind: str = "fin"):
        """Peer-side departure: 'fin' = orderly close, 'rst' = linger-0 / crash."""
        if self.closed:
            return
        self.closed = True
        peer = self.peer
        self.net.log("PEER_DIE", self.idx, kind)
        if peer is not None and not peer.closed:
            if kind == "rst":
                peer.rx_rst = 1
            else:
                peer.rx_fin = 1
        del self.rx_arrived[:]
        del self.rx_inflight[:]

    def shutdown(self, how):
        if self.closed:
            raise self._ebadf()
        if self.kind != "conn" or self.rx_rst == 2:
            # not connected (any more): a connection the peer has reset is in CLOSE state for the kernel
            raise OSError(errno.ENOTCONN, "Transport endpoint is not connected")
        if how in (_real_socket.SHUT_WR, _real_socket.SHUT_RDWR):
            peer = self.peer
            if peer is not None and not peer.closed and peer.rx_fin == 0:
                peer.rx_fin = 1
                if peer.side == "peer":
                    peer.arrive()

    def __enter__(self):
        return self

    def __exit__(self, *a):
        self.close()

    def __del__(self):
        pass


class SimNet:
    def __init__(self, world):
        self.world = world
        self.choices = world.choices
        self.clock: Clock = world.clock
        self._idx = 0
        self.listeners: Dict[int, SimSocket] = {}
        self.bound: Dict[int, SimSocket] = {}
        self.timecode = False
        self.hs = 48
        self.events: List[tuple] = []
        self.seq = 0
        self.round = 0
        self.reads: List[FrameRec] = []       # frames the manager read, in read order
        self.writes: List[FrameRec] = []      # frames the manager wrote (complete ones), in order
        self.wprobe: Dict[int, frozenset] = {}  # round -> writable conn idx set
        self.rounds_ready: Dict[int, tuple] = {}
        self.ends: List[tuple] = []           # (seq, conn, how) manager noticed the end of a conn
        self.closes: List[tuple] = []         # (seq, conn) manager closed conn
        self.wfails: List[tuple] = []         # (seq, conn, delivered, errno)
        self.logger_waits: List[tuple] = []   # (seq, conn)
        self.voids: List[tuple] = []          # (seq, conn) manager write swallowed by a dead peer
        self.mgr_socks: Dict[int, SimSocket] = {}
        self.stats = {
            "accepts": 0, "rounds": 0, "idle_rounds": 0, "multi_ready_rounds": 0,
            "midframe_blocks": 0, "notwritable": 0, "write_fail": 0, "write_void": 0,
            "logger_wait": 0, "fin": 0, "rst": 0, "cut_arrivals": 0, "withheld_arrivals": 0,
            "clock_jumps": 0, "frames_read": 0, "frames_written": 0, "use_after_close": 0,
            "peer_write_stall": 0, "peer_write_stall_expired": 0,
        }
        self.round_sigs = set()
        # a reset connection reports ECONNABORTED instead of ECONNRESET on the write that discovers it (the usual
        # write-side error on Windows, rare but legal elsewhere; also a ConnectionError).  Off unless a harness
        # switches it on for a run.
        self.abort_errno = False
        self.probe_rounds = set()             # rounds in which the manager refreshed its writable snapshot
        self.probe_seq = {}                   # round -> event seq of that refresh
        self.logging_on = True

    def _next_idx(self):
        self._idx += 1
        return self._idx

    def set_timecode(self, tc: bool):
        self.timecode = tc
        self.hs = hdr_size(tc)

    # event log ----------------------------------------------------------------
    def log(self, kind, *args):
        if not self.logging_on:
            return 0
        self.seq += 1
        self.events.append((self.seq, kind) + args)
        return self.seq

    # manager-side observation ---------------------------------------------------
    def on_mgr_read(self, sock: SimSocket, data: bytes, wanted: int, eof=None):
        if eof is None:
            eof = len(data) < wanted
        if eof:
            # EOF / reset noticed by the reader
            sock.eof_reads = getattr(sock, "eof_reads", 0) + 1
            if sock.eof_reads > 3000:
                # the reader asks the ended stream again and again without ever going back to select
                self.world.manager_livelock(sock.idx, sock.eof_reads)
            seq = self.log("MGR_EOF", sock.idx, len(data), wanted)
            self.ends.append((seq, sock.idx, "eof"))
            if sock.rd_frame is not None and not sock.rd_frame.complete:
                sock.rd_frame.payload = bytes(data)
            return
        fr = sock.rd_frame
        if fr is None or fr.complete:
            sock.rd_buf += data
            if len(sock.rd_buf) >= self.hs:
                h = unpack_hdr(self.timecode, sock.rd_buf)
                extra = bytes(sock.rd_buf[self.hs:])
                del sock.rd_buf[:]
                sock.rd_count += 1
                seq = self.log("MGR_READ", sock.idx, sock.rd_count, h.msg_type, h.src_mod_id,
                               h.dest_mod_id, h.dest_host_id, h.num_data_bytes, h.send_time)
                fr = FrameRec(seq, sock.idx, self.round, h)
                fr.t = self.clock.now
                self.reads.append(fr)
                self.stats["frames_read"] += 1
                sock.rd_frame = fr
                if h.num_data_bytes <= 0:
                    fr.complete = True
                if extra:
                    fr.payload = extra
        else:
            fr.payload += data
            if len(fr.payload) >= fr.hdr.num_data_bytes:
                fr.complete = True
                fr.done_seq = self.log("MGR_READ_DATA", sock.idx, len(fr.payload),
                                       zlib.crc32(fr.payload))

    def on_mgr_read_end(self, sock: SimSocket, how: str):
        seq = self.log("MGR_RDERR", sock.idx, how)
        self.ends.append((seq, sock.idx, how))

    def on_peer_read(self, sock, data, wanted):
        w = self.world
        if w.peer_read_hook is not None:
            w.peer_read_hook(sock, data, wanted)

    def deliver_to(self, src: SimSocket, dst: SimSocket, data: bytes):
        if src.side == "mgr":
            # writing takes time (a configured cost per write: the clock moves while the manager is busy sending)
            wc = getattr(self.world, "write_cost", 0.0)
            if wc:
                self.clock.advance(wc)
            # manager -> peer: arrives at once; parse what the manager wrote
            dst.rx_arrived += data
            dst.rx_log += data
            src.tx_bytes_ok += len(data)
            self._parse_tx(src, data)
        else:
            if dst.side == "peer":
                # scripted server -> real client: the driver decides arrivals
                dst.rx_inflight += data
            else:
                dst.rx_inflight += data
            self.log("PEER_SEND", src.idx, len(data), zlib.crc32(data))

    def _parse_tx(self, sock: SimSocket, data: bytes):
        buf = sock.tx_buf
        buf += data
        hs = self.hs
        while len(buf) >= hs:
            h = unpack_hdr(self.timecode, buf)
            ln = h.num_data_bytes
            if ln < 0:
                ln = 0
            if len(buf) < hs + ln:
                break
            payload = bytes(buf[hs:hs + ln])
            del buf[:hs + ln]
            if h.msg_type in LOG_TYPES:
                sig = (len(payload),)
            else:
                sig = (len(payload), zlib.crc32(payload))
            seq = self.log("MGR_WRITE", sock.idx, h.msg_type, h.msg_count, h.src_mod_id,
                           h.dest_mod_id, h.dest_host_id, h.num_data_bytes, *sig)
            fr = FrameRec(seq, sock.idx, self.round, h)
            fr.t = self.clock.now
            fr.payload = payload
            fr.complete = True
            sock.tx_frames.append(fr)
            self.writes.append(fr)
            self.stats["frames_written"] += 1

    def on_write_fail(self, sock: SimSocket, delivered: int, err: str, data: bytes = b""):
        # which frame was being written?
        mt, tag = None, None
        if sock.side == "mgr" and sock.sh_hdr is not None:
            mt, tag = sock.sh_hdr.msg_type, sock.sh_hdr.send_time
        seq = self.log("MGR_WRITE_FAIL" if sock.side == "mgr" else "PEER_WRITE_FAIL", sock.idx,
                       delivered, err, mt, tag if (tag is not None and tag >= 1.0e9) else None)
        if sock.side == "mgr":
            self.wfails.append((seq, sock.idx, delivered, err, mt, tag))
            self.stats["write_fail"] += 1
            self.ends.append((seq, sock.idx, "wfail"))

    def on_write_void(self, sock: SimSocket, n: int):
        seq = self.log("WRITE_VOID", sock.idx, n)
        if sock.side == "mgr":
            self.voids.append((seq, sock.idx))
        sock.write_failed = True   # bytes were lost: a truncated/absent frame is legitimate here
        if sock.side == "mgr":
            self.stats["write_void"] += 1

    def on_mgr_close(self, sock: SimSocket, unread: bool):
        seq = self.log("MGR_CLOSE", sock.idx, int(unread))
        self.closes.append((seq, sock.idx))

    # blocking ------------------------------------------------------------------
    def block_in_recv(self, sock: SimSocket, n: int):
        self.world.block_in_recv(sock, n)


# --------------------------------------------------------------------------------------
# fake modules
# --------------------------------------------------------------------------------------
class FakeSocketModule:
    """Stands in for the ``socket`` module global of one pyrtma module."""

    def __init__(self, net: SimNet, side: str):
        self._net = net
        self._side = side
        for name in ("AF_INET", "SOCK_STREAM", "IPPROTO_TCP", "INADDR_ANY", "SOMAXCONN",
                     "TCP_NODELAY", "SOL_SOCKET", "SO_REUSEADDR", "MSG_WAITALL", "error",
                     "timeout", "SHUT_RDWR", "MSG_DONTWAIT", "MSG_PEEK", "SO_SNDBUF", "SO_RCVBUF",
                     "SO_KEEPALIVE", "SO_LINGER", "SHUT_RD", "SHUT_WR", "MSG_NOSIGNAL"):
            setattr(self, name, getattr(_real_socket, name))

    def socket(self, family=-1, type=-1, proto=-1, fileno=None):
        return SimSocket(self._net, self._side)

    def getprotobyname(self, name):
        return 6 if name == "tcp" else 17

    def gethostname(self):
        return "simhost"


class FakeTime:
    def __init__(self, world):
        self._w = world

    def perf_counter(self):
        return self._w.clock.now

    def monotonic(self):
        return self._w.clock.now

    def time(self):
        c = self._w.clock
        return c.epoch + c.now

    def sleep(self, d):
        self._w.sleep(d)


class FakeRandom:
    def __init__(self, world):
        self._w = world

    def shuffle(self, lst):
        self._w.choices.shuffle("mgr.shuffle", lst)
        self._w.on_shuffle(lst)

    def randint(self, a, b):
        return a + self._w.choices.pick("rand.randint", b - a + 1)

    def random(self):
        return self._w.choices.pick("rand.random", 1 << 20) / float(1 << 20)


class FakeOs:
    def __init__(self, pid=4242):
        self._pid = pid

    def getpid(self):
        return self._pid

    def __getattr__(self, name):
        import os
        return getattr(os, name)
