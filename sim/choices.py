"""One integer decides everything.

Every decision of a simulated run (generated operation, argument, arrival subset,
service order, writable subset, which task runs next, clock jump, fault placement)
is one call ``pick(label, n)`` on a Choices object.  It is either *generating*
(values from random.Random(seed)) or *replaying* (values from a recorded list;
exhausted or out of range -> 0, by convention the "plain" alternative: no fault,
deliver everything, smallest size, first task).  The recorded (label, n, value)
list is the schedule-and-fault trace of the run.
"""
from __future__ import annotations

import random
from typing import List, Optional, Sequence, Tuple


class ChoiceBudgetExceeded(BaseException):
    """A run asked for more choices than its cap (bounds every run)."""


class Choices:
    __slots__ = ("rng", "replay", "pos", "trace", "cap", "seed", "record_labels")

    def __init__(self, seed: Optional[int] = None, replay: Optional[Sequence[int]] = None,
                 cap: int = 2_000_000):
        self.seed = seed
        self.rng = random.Random(seed) if replay is None else None
        self.replay = list(replay) if replay is not None else None
        self.pos = 0
        self.trace: List[Tuple[str, int, int]] = []
        self.cap = cap

    # -- core ------------------------------------------------------------------
    def pick(self, label: str, n: int) -> int:
        """value in [0, n); 0 is the plain alternative."""
        if n <= 1:
            return 0
        if len(self.trace) >= self.cap:
            raise ChoiceBudgetExceeded(label)
        if self.replay is None:
            v = self.rng.randrange(n)
        else:
            if self.pos < len(self.replay):
                v = self.replay[self.pos]
                if not (0 <= v < n):
                    v = 0
            else:
                v = 0
            self.pos += 1
        self.trace.append((label, n, v))
        return v

    # -- helpers (all built on pick, so they replay and shrink) -----------------
    def flag(self, label: str, num: int, den: int) -> bool:
        """True with probability num/den; replaying 0 gives False (no fault)."""
        if num <= 0:
            return False
        return self.pick(label, den) >= den - num

    def choose(self, label: str, seq):
        return seq[self.pick(label, len(seq))]

    def weighted(self, label: str, items):
        """items: [(weight:int, value)]; first item is the plain alternative."""
        total = 0
        for w, _ in items:
            total += w
        v = self.pick(label, total)
        acc = 0
        for w, it in items:
            acc += w
            if v < acc:
                return it
        return items[-1][1]

    def rint(self, label: str, lo: int, hi: int) -> int:
        """integer in [lo, hi]; lo is the plain alternative."""
        return lo + self.pick(label, hi - lo + 1)

    def shuffle(self, label: str, lst: list) -> None:
        """Fisher-Yates; all-zero choices leave the order unchanged."""
        for i in range(len(lst) - 1, 0, -1):
            j = i - self.pick(label, i + 1)
            if j != i:
                lst[i], lst[j] = lst[j], lst[i]

    def subset(self, label: str, seq, num: int, den: int):
        """each element kept out with probability num/den; returns (kept, dropped)."""
        kept, dropped = [], []
        for x in seq:
            (dropped if self.flag(label, num, den) else kept).append(x)
        return kept, dropped

    def values(self) -> List[int]:
        return [v for (_, _, v) in self.trace]
