"""Seeded thread scheduler + stand-ins for threading.Event / Thread / Lock.

Every wait / set / clear / is_set / start / join / is_alive / acquire / release is a scheduling
point: the scheduler (never the OS) picks which task runs next, *before* the operation takes
effect; the operation itself is atomic.  Real threads, one baton.
"""
from __future__ import annotations

from typing import Callable, List, Optional

from .baton import Baton, SimInternalError, SimShutdown, Task
from .net import SimStall


class STask:
    __slots__ = ("task", "name", "cond", "deadline", "blocked", "is_main")

    def __init__(self, task: Task, name: str, is_main=False):
        self.task = task
        self.name = name
        self.cond: Optional[Callable[[], bool]] = None
        self.deadline: Optional[float] = None
        self.blocked = False
        self.is_main = is_main

    @property
    def done(self):
        return self.task.done


class Sched:
    def __init__(self, choices, clock, p_switch=(1, 2)):
        self.ch = choices
        self.clock = clock
        self.baton = Baton()
        self.main = STask(self.baton.main, "recorder", True)
        self.tasks: List[STask] = [self.main]
        self.cur: STask = self.main
        self.p_switch = p_switch
        self.log: List[tuple] = []
        self.seq = 0
        self.switches = 0
        self.on_yield = None           # hook(sched, label): may move the clock
        self.atomic_depth = 0          # >0: scheduling points are suppressed (targeted batches)
        self.atomic_pairs = set()      # labels after which the *next* point of that task is suppressed
        self._suppress_next = {}
        self.op_log: List[tuple] = []

    def note(self, *a):
        self.seq += 1
        self.log.append((self.seq,) + a)

    # ------------------------------------------------------------------ scheduling
    def _runnable(self, t: STask) -> bool:
        if t.done:
            return False
        if not t.blocked:
            return True
        if t.cond is not None and t.cond():
            return True
        if t.deadline is not None and self.clock.now >= t.deadline:
            return True
        return False

    def _pick(self, label: str, prefer_current: bool) -> STask:
        while True:
            cands = [t for t in self.tasks if self._runnable(t)]
            if cands:
                break
            dls = [t.deadline for t in self.tasks if not t.done and t.blocked and t.deadline is not None]
            if not dls:
                raise SimStall(f"deadlock: every task is blocked without deadline at {label}")
            self.clock.advance(max(0.0, min(dls) - self.clock.now))
        if len(cands) == 1:
            return cands[0]
        # index 0 = keep the current task running (the plain alternative)
        if prefer_current and self.cur in cands:
            cands.remove(self.cur)
            cands.insert(0, self.cur)
            num, den = self.p_switch
            if not self.ch.flag("sched.switch", num, den):
                return cands[0]
            return cands[1 + self.ch.pick("sched.who", len(cands) - 1)]
        return cands[self.ch.pick("sched.who", len(cands))]

    def _switch_to(self, nxt: STask):
        if nxt is self.cur:
            return
        self.switches += 1
        self.cur = nxt
        self.baton.switch(nxt.task)
        # resumed: whoever resumed us set self.cur to us

    def yield_point(self, label: str):
        """scheduling point before an operation of the current task takes effect"""
        me = self.cur
        key = me.name
        if self.atomic_depth or self._suppress_next.pop(key, None) == label:
            return
        if self.on_yield is not None:
            self.on_yield(self, label)
        nxt = self._pick(label, prefer_current=True)
        if nxt is not me:
            self.note("SWITCH", me.name, nxt.name, label)
            self._switch_to(nxt)
            self.cur = me

    def preempt(self, label: str):
        """pre-empt the current task right here in favour of another runnable one (line-level mode)"""
        me = self.cur
        others = [t for t in self.tasks if t is not me and self._runnable(t)]
        if not others:
            return
        nxt = others[self.ch.pick("sched.preempt", len(others))]
        self.note("PREEMPT", me.name, nxt.name, label)
        self._switch_to(nxt)
        self.cur = me

    def block(self, label: str, cond, deadline):
        """current task blocks until cond() or the deadline; others run meanwhile"""
        me = self.cur
        me.blocked, me.cond, me.deadline = True, cond, deadline
        try:
            while True:
                if cond():
                    return True
                if deadline is not None and self.clock.now >= deadline:
                    return cond()
                nxt = self._pick(label, prefer_current=False)
                if nxt is me:
                    continue
                self.note("SWITCH", me.name, nxt.name, label + ":blocked")
                self._switch_to(nxt)
                self.cur = me
        finally:
            me.blocked, me.cond, me.deadline = False, None, None

    def suppress_next(self, task_name: str, label: str):
        """make the next scheduling point `label` of that task a no-op (atomic pair)"""
        self._suppress_next[task_name] = label

    # ------------------------------------------------------------------ tasks
    def spawn(self, name: str, fn: Callable) -> STask:
        holder = {}

        def body():
            try:
                return fn()
            finally:
                st = holder["st"]
                # hand the baton to some runnable task when this one ends
                self.note("EXIT", st.name)

        t = self.baton.spawn(name, body)
        st = STask(t, name)
        holder["st"] = st
        self.tasks.append(st)
        # when the task finishes the baton goes to a task chosen here
        orig_exit = self.baton._exit_target

        def exit_target(task, preferred, _st=st):
            if task is t:
                _st_done_pick = [x for x in self.tasks if x is not _st and self._runnable(x)]
                if not _st_done_pick:
                    # advance the clock to the earliest deadline
                    dls = [x.deadline for x in self.tasks if x is not _st and not x.done and x.blocked
                           and x.deadline is not None]
                    if dls:
                        self.clock.advance(max(0.0, min(dls) - self.clock.now))
                        _st_done_pick = [x for x in self.tasks if x is not _st and self._runnable(x)]
                nxt = _st_done_pick[0] if _st_done_pick else self.main
                self.cur = nxt
                return nxt.task
            return orig_exit(task, preferred)

        self.baton._exit_target = exit_target
        return st

    def kill_all(self):
        self.baton.kill_all()


class SimThreading:
    """Stands in for the ``threading`` module global of pyrtma.data_logger.data_collection."""

    def __init__(self, sched: Sched):
        self._s = sched
        outer = self

        class Event:
            _n = 0

            def __init__(ev):
                ev._flag = False
                Event._n += 1
                ev.name = f"ev{Event._n}"

            def is_set(ev):
                outer._s.yield_point(f"{ev.name}.is_set")
                outer._s.note("IS_SET", outer._s.cur.name, ev.name, ev._flag)
                return ev._flag

            def set(ev):
                outer._s.yield_point(f"{ev.name}.set")
                ev._flag = True
                outer._s.note("SET", outer._s.cur.name, ev.name)
                # the code that follows the operation may be pre-empted before it runs, too
                outer._s.yield_point(f"{ev.name}.set:after")

            def clear(ev):
                outer._s.yield_point(f"{ev.name}.clear")
                ev._flag = False
                outer._s.note("CLEAR", outer._s.cur.name, ev.name)
                outer._s.yield_point(f"{ev.name}.clear:after")

            def wait(ev, timeout=None):
                s = outer._s
                s.yield_point(f"{ev.name}.wait")
                if ev._flag:
                    s.note("WAIT", s.cur.name, ev.name, True)
                    return True
                dl = None if timeout is None else s.clock.now + timeout
                r = s.block(f"{ev.name}.wait", lambda: ev._flag, dl)
                s.note("WAIT", s.cur.name, ev.name, bool(r))
                return bool(r)

        class Lock:
            _n = 0

            def __init__(lk):
                lk._owner = None
                Lock._n += 1
                lk.name = f"lock{Lock._n}"

            def acquire(lk, blocking=True, timeout=-1):
                s = outer._s
                s.yield_point(f"{lk.name}.acquire")
                if lk._owner is not None:
                    if not blocking:
                        return False
                    s.block(f"{lk.name}.acquire", lambda: lk._owner is None, None)
                lk._owner = s.cur.name
                s.note("ACQUIRE", s.cur.name, lk.name)
                s.yield_point(f"{lk.name}.acquire:after")
                return True

            def release(lk):
                s = outer._s
                if lk._owner is None:
                    raise RuntimeError("release unlocked lock")
                lk._owner = None
                s.note("RELEASE", s.cur.name, lk.name)
                s.yield_point(f"{lk.name}.release")

            def locked(lk):
                return lk._owner is not None

            def __enter__(lk):
                lk.acquire()
                return lk

            def __exit__(lk, *a):
                lk.release()

        class Thread:
            _n = 0

            def __init__(th, target=None, args=(), kwargs=None, name=None, daemon=None):
                Thread._n += 1
                th._target = target
                th._args = args
                th._kwargs = kwargs or {}
                th.name = name or f"writer{Thread._n}"
                th._st = None
                th.daemon = daemon

            def start(th):
                s = outer._s
                th._st = s.spawn(th.name, lambda: th._target(*th._args, **th._kwargs))
                s.note("START", th.name)
                s.yield_point(f"{th.name}.start")

            def join(th, timeout=None):
                s = outer._s
                s.yield_point(f"{th.name}.join")
                if th._st is None or th._st.done:
                    return
                dl = None if timeout is None else s.clock.now + timeout
                s.block(f"{th.name}.join", lambda: th._st.done, dl)

            def is_alive(th):
                outer._s.yield_point(f"{th.name}.is_alive")
                return th._st is not None and not th._st.done

        self.Event = Event
        self.Thread = Thread
        self.Lock = Lock
        self.RLock = Lock

    def current_thread(self):
        import threading
        return threading.current_thread()

    def get_ident(self):
        import threading
        return threading.get_ident()
