"""World: the real MessageManager (in its own baton thread) + real Clients / raw actors under
the fake socket / select / time / random modules.  The driver is the calling thread.
"""
from __future__ import annotations

import hashlib
import logging
import os
import sys
from typing import List, Optional

from .baton import Baton, SimInternalError, SimShutdown, Task, TaskHung
from .choices import Choices
from .net import (Clock, FakeOs, FakeRandom, FakeSocketModule, FakeTime, SimNet, SimSocket,
                  SimStall)


def repo_src() -> str:
    return os.path.join(os.environ.get("VERIF_REPO", "/repo"), "src")


IMPORT_PID = 424242


def import_pyrtma():
    src = repo_src()
    if src not in sys.path:
        sys.path.insert(0, src)
    # whatever the package reads from the process while it is being imported is under the simulator's control
    # too: the importing process had IMPORT_PID; the simulated processes that use the package later have their own
    real_getpid = os.getpid
    if "pyrtma" not in sys.modules:
        os.getpid = lambda: IMPORT_PID
    try:
        import pyrtma  # noqa: F401
        import pyrtma.manager  # noqa: F401
        import pyrtma.client  # noqa: F401
    finally:
        os.getpid = real_getpid
    got = os.path.dirname(os.path.dirname(os.path.abspath(pyrtma.__file__)))
    if os.path.realpath(got) != os.path.realpath(src):
        raise SimInternalError(f"pyrtma imported from {got}, expected {src}")
    return pyrtma


class ManagerCrashed(Exception):
    """The manager thread ended with an exception (C03 oracle)."""

    def __init__(self, exc: BaseException):
        self.exc = exc
        tb = exc.__traceback__
        where = "?"
        frames = []
        while tb is not None:
            co = tb.tb_frame.f_code
            frames.append((os.path.basename(co.co_filename), co.co_name, tb.tb_lineno))
            tb = tb.tb_next
        # innermost pyrtma frame
        self.frames = frames
        for f in reversed(frames):
            if f[0] in ("manager.py", "client.py", "message_base.py", "validators.py",
                        "client_logging.py", "header.py", "message.py"):
                where = f"{f[0]}:{f[1]}"
                break
        self.where = where
        # chain of manager.py functions (outermost first), for signatures
        self.chain = [f[1] for f in frames if f[0] == "manager.py"]
        super().__init__(f"{type(exc).__name__}: {exc} @ {where}")

    def signature(self) -> str:
        return f"{type(self.exc).__name__}@{self.where}"


class ManagerSpins(ManagerCrashed):
    """The manager keeps reading end-of-file from a connection it never removes (it is alive but
    burns every round on a dead peer and never closes it)."""

    def __init__(self, conn, n):
        Exception.__init__(self, f"the manager read EOF {n} times from conn {conn} without ever removing it")
        self.exc = None
        self.frames = []
        self.chain = []
        self.where = "busy_loop"
        self.conn = conn

    def signature(self) -> str:
        return "busy_loop_on_dead_connection"


# manager threads left blocked for ever in this process (they may hold locks of the logging module: the
# interpreter's normal shutdown would wait for those, so the entry point leaves through os._exit instead)
HANGS = 0


class ManagerHung(ManagerCrashed):
    """The manager thread is blocked for ever inside the code under test (it holds the baton and never comes
    back to a simulator call; its stack does not move): it serves nobody any more."""

    def __init__(self, stack):
        self.stack = stack
        inner = "?"
        for f in stack:
            if f[0] in ("manager.py", "client.py", "client_logging.py", "message_base.py", "validators.py",
                        "header.py", "message.py"):
                inner = f"{f[0]}:{f[2]}"
                break
        Exception.__init__(self, "the manager thread is blocked for ever at "
                           + " <- ".join(f"{f[0]}:{f[1]}:{f[2]}" for f in stack[:6]))
        self.exc = None
        self.frames = []
        self.chain = [f[2] for f in stack if f[0] == "manager.py"][::-1]
        self.where = inner

    def signature(self) -> str:
        return f"manager_hung@{self.where}"


class _Writable:
    """membership test 'conn was able to accept data in that round'"""

    __slots__ = ("blocked",)

    def __init__(self, blocked, net):
        self.blocked = frozenset(blocked)

    def __contains__(self, conn):
        return conn not in self.blocked


class MgrSelect:
    """``select`` module global of pyrtma.manager."""

    error = OSError

    def __init__(self, world):
        self._w = world

    def select(self, rlist, wlist, xlist, timeout=None):
        return self._w.mgr_select(list(rlist), list(wlist), timeout)


class PeerSelect:
    """``select`` module global of pyrtma.client (driver side)."""

    error = OSError

    def __init__(self, world):
        self._w = world

    def select(self, rlist, wlist, xlist, timeout=None):
        return self._w.peer_select(list(rlist), list(wlist), timeout)


class _LoggingTime:
    """``time`` as seen by the logging module: virtual time()/time_ns(), the rest real."""

    def __init__(self, world):
        self._w = world

    def time(self):
        c = self._w.clock
        return c.epoch + c.now

    def time_ns(self):
        c = self._w.clock
        return int((c.epoch + c.now) * 1e9)

    def __getattr__(self, name):
        import time as _t
        return getattr(_t, name)


class World:
    PORT = 7111

    def __init__(self, choices: Choices, *, timecode=False, log_level=logging.ERROR,
                 send_msg_timing=True, p_notwritable=(0, 1), arrival_bias=5,
                 max_rounds=20000, debug=None, console=False):
        self.choices = choices
        self.clock = Clock()
        # the process may have been up for a long time: timers must not depend on small clock values
        self.clock.now = choices.weighted("cfg.clock0", [(6, 1000.0), (1, 3.0e6), (1, 9.9e7)])
        self.baton = Baton()
        self.net = SimNet(self)
        self.net.set_timecode(timecode)
        self.timecode = timecode
        self.log_level = log_level
        self.send_msg_timing = send_msg_timing
        self.p_notwritable = p_notwritable      # (num, den) per connection per probe
        self.p_peer_stall = (0, 1)              # (num, den) per client write-readiness wait
        self.write_cost = 0.0                   # virtual seconds every manager write takes
        self.arrival_bias = arrival_bias        # weight of "everything arrives"
        self.max_rounds = max_rounds
        # MessageManager(debug=...) is a configuration like any other: drawn per run unless given
        self.debug = bool(choices.flag("cfg.mgr_debug", 1, 4)) if debug is None else bool(debug)
        # keep the rich console log handler (rendering into a buffer): always possible, drawn rarely because slow
        self.console = console or bool(choices.flag("cfg.console_any", 1, 16))
        self.mgr = None
        self.mgr_task: Optional[Task] = None
        self.mgr_state = "new"                  # new | select | recv | running | dead
        self.mgr_blocked_sock: Optional[SimSocket] = None
        self.mgr_blocked_need = 0
        self.peer_read_hook = None
        self.driver_block_hook = None           # readpath: scripted server feeds on demand
        self._patched = []
        self._prints: List[str] = []
        self.force_writable = None              # callable(round, socks) -> set or None
        self.always_writable = set()            # conn idx the scheduler never reports as not writable
        self.wprobe_hook = None
        self.shutting_down = False
        self.manager_crash: Optional[ManagerCrashed] = None
        self.sleep_steps = True
        self.closed_use: List[tuple] = []
        self._loggers: List[str] = []
        self.fake_socket_mgr = FakeSocketModule(self.net, "mgr")
        self.fake_socket_peer = FakeSocketModule(self.net, "peer")
        self.fake_time = FakeTime(self)
        self.tag_counter = 0
        self.sent_by_tag = {}

    # ------------------------------------------------------------------ patching
    def patch(self):
        import pyrtma.manager as M
        import pyrtma.client as C
        fo = FakeOs()
        self._set(M, "socket", self.fake_socket_mgr)
        self._set(M, "select", MgrSelect(self))
        self._set(M, "time", self.fake_time)
        self._set(M, "random", FakeRandom(self))
        self._set(M, "os", fo)
        self._set(M, "print", self._print)
        self._set(C, "socket", self.fake_socket_peer)
        self._set(C, "select", PeerSelect(self))
        self._set(C, "time", self.fake_time)
        self._set(C, "os", fo)
        self._set(C, "print", self._print)
        # LogRecord.created ends up inside RTMA_LOG payloads: take it from the virtual clock
        import logging as _logging
        self._set(_logging, "time", _LoggingTime(self))

    def _set(self, mod, name, value):
        missing = object()
        old = mod.__dict__.get(name, missing)
        self._patched.append((mod, name, old, missing))
        setattr(mod, name, value)

    def unpatch(self):
        for mod, name, old, missing in reversed(self._patched):
            if old is missing:
                try:
                    delattr(mod, name)
                except AttributeError:
                    pass
            else:
                setattr(mod, name, old)
        self._patched.clear()

    def _print(self, *a, **k):
        self._prints.append(" ".join(str(x) for x in a))

    # ------------------------------------------------------------------ manager
    def start_manager(self):
        import pyrtma.manager as M
        from pyrtma.validators import disable_message_validation
        with disable_message_validation():
            mgr = M.MessageManager(ip_address="127.0.0.1", port=self.PORT,
                                   timecode=self.timecode, log_level=logging.CRITICAL + 10,
                                   debug=self.debug, send_msg_timing=self.send_msg_timing)
        if self.console:
            import io
            from rich.console import Console
            h = mgr.logger.console_handler
            if h is not None and hasattr(h, "console"):
                h.console = Console(file=io.StringIO(), force_terminal=False, width=200)
            else:
                mgr.logger.enable_console = False
        else:
            mgr.logger.enable_console = False
        mgr.logger.set_all_levels(self.log_level)
        self._loggers.append(mgr.logger.logger.name)
        self.mgr = mgr
        self.mgr_task = self.baton.spawn("mgr", mgr.run)
        self.mgr_state = "running"
        self.step()   # run to the first select

    def step(self) -> str:
        """Resume the manager until its next scheduling point.  Returns its state."""
        if self.baton.current is not self.baton.main:
            raise SimInternalError("step() from a non-driver task")
        t = self.mgr_task
        if t is not None and t.abandoned and self.manager_crash is not None:
            raise self.manager_crash
        if t is None or t.done:
            self._raise_if_crashed()
            if getattr(self, "round_cap_hit", False):
                raise SimStall(f"run exceeded the cap of {self.max_rounds} manager rounds")
            return "dead"
        try:
            self.baton.switch(t)
        except TaskHung:
            self._classify_hang(t)
            raise
        if t.abandoned and self.manager_crash is not None:
            raise self.manager_crash
        if t.done:
            self.mgr_state = "dead"
            self._raise_if_crashed()
            if getattr(self, "round_cap_hit", False):
                raise SimStall(f"run exceeded the cap of {self.max_rounds} manager rounds")
        return self.mgr_state

    def manager_livelock(self, conn, n):
        """Called on the manager thread: it reads end-of-stream from one connection over and over without ever
        returning to select.  The thread is parked for good and the run ends as a manager that serves nobody."""
        t = self.mgr_task
        if self.baton.current is not t:
            return
        self.manager_crash = ManagerSpins(conn, n)
        self.net.log("MGR_SPINS", conn)
        t.abandoned = True
        self.mgr_state = "dead"
        self.baton.switch(self.baton.main)      # never scheduled again
        raise SimShutdown()

    def _classify_hang(self, t):
        """The manager did not come back within the wall limit.  If its stack is inside the code under test and
        does not move any more, that is a manager that hangs (a violation, reported like a crash); anything else
        stays a harness error."""
        import sys as _sys
        import time as _time

        def sample():
            fr = _sys._current_frames().get(t.thread.ident) if t.thread else None
            out = []
            while fr is not None and len(out) < 40:
                out.append((os.path.basename(fr.f_code.co_filename), fr.f_lineno, fr.f_code.co_name,
                            fr.f_code.co_filename))
                fr = fr.f_back
            return out
        a = sample()
        _time.sleep(1.0)
        b = sample()
        if not a or a != b:
            return
        simdir = os.path.dirname(os.path.abspath(__file__))
        if os.path.dirname(os.path.abspath(a[0][3])) == simdir:
            return          # parked inside the simulator: not the code under test
        if not any("pyrtma" in f[3] for f in a):
            return
        t.abandoned = True
        global HANGS
        HANGS += 1
        self.mgr_state = "dead"
        self.manager_crash = ManagerHung([(f[0], f[1], f[2]) for f in a])
        self.net.log("MGR_HUNG", self.manager_crash.signature())
        raise self.manager_crash

    def _raise_if_crashed(self):
        t = self.mgr_task
        if t is not None and t.done and t.exc is not None and not self.shutting_down:
            if self.manager_crash is None:
                self.manager_crash = ManagerCrashed(t.exc)
                self.net.log("MGR_CRASH", self.manager_crash.signature())
            raise self.manager_crash

    def _yield_to_driver(self):
        """Manager thread: give the baton back."""
        self.baton.switch(self.baton.main)

    # ----- select as seen by the manager thread --------------------------------
    def mgr_select(self, rlist, wlist, timeout):
        net = self.net
        if timeout is not None and timeout < 0:
            raise ValueError("timeout must be non-negative")
        if self.baton.current is not self.mgr_task:
            # manager code running on the driver thread (construction / teardown)
            return [], list(wlist), []
        for s in rlist:
            if s.closed:
                self.closed_use.append((net.seq, s.idx, "select-r"))
                net.stats["use_after_close"] += 1
                raise ValueError("file descriptor cannot be a negative integer (-1)")
        for s in wlist:
            if s.closed:
                self.closed_use.append((net.seq, s.idx, "select-w"))
                net.stats["use_after_close"] += 1
                raise ValueError("file descriptor cannot be a negative integer (-1)")
        if rlist:
            return self._mgr_select_read(rlist, timeout)
        if timeout is None:
            # blocking wait for one logger connection
            s = wlist[0]
            seq = net.log("LOGGER_WAIT", s.idx)
            net.logger_waits.append((seq, s.idx))
            net.stats["logger_wait"] += 1
            self.clock.advance(0.001 * (1 + self.choices.pick("net.logger_delay", 4)))
            return [], [s], []
        return self._mgr_wprobe(wlist)

    def _mgr_select_read(self, rlist, timeout):
        net = self.net
        self.mgr_state = "select"
        self.last_rlist = rlist          # what the manager is selecting on right now
        self._yield_to_driver()
        self.mgr_state = "running"
        net.round += 1
        net.stats["rounds"] += 1
        if net.round > self.max_rounds:
            self.round_cap_hit = True
            raise SimShutdown()
        self._arrivals(rlist)
        self._round_truth()
        ready = [s for s in rlist if s.readable()]
        if not ready:
            net.stats["idle_rounds"] += 1
            self.clock.advance(timeout if timeout is not None else 0.2)
        else:
            if len(ready) > 1:
                net.stats["multi_ready_rounds"] += 1
        net.log("MGR_SELECT", net.round, tuple(s.idx for s in ready), round(self.clock.now, 6))
        net.rounds_ready[net.round] = tuple(s.idx for s in ready)
        return ready, [], []

    def _arrivals(self, rlist):
        """Scheduler decides which in-flight bytes / FIN / RST have arrived by now."""
        ch = self.choices
        pend = [s for s in rlist if s.kind == "conn" and (s.rx_inflight or s.rx_fin == 1 or s.rx_rst == 1)]
        if not pend:
            return
        mode = ch.weighted("arr.mode", [(self.arrival_bias, 0), (3, 1)])
        net = self.net
        for s in pend:
            if mode == 0 or s.starve >= 6:
                s.arrive()
                continue
            how = ch.weighted("arr.how", [(3, 0), (2, 1), (2, 2), (1, 3)])
            if how == 0:
                s.arrive()
            elif how == 1:
                s.starve += 1
                net.stats["withheld_arrivals"] += 1
            elif how == 2 and len(s.rx_inflight) > 1:
                k = 1 + ch.pick("arr.cut", len(s.rx_inflight) - 1)
                s.arrive(k)
                s.starve += 1
                net.stats["cut_arrivals"] += 1
            elif how == 3 and s.rx_rst == 1:
                s.arrive_rst_now()
            else:
                s.arrive()

    def _round_truth(self):
        """Ground truth for 'can accept data' in this round, decided by the simulator for EVERY live
        manager-side connection -- independent of which sockets the manager later asks about."""
        net = self.net
        ch = self.choices
        cands = [s for s in net.mgr_socks.values() if not s.closed and s.kind == "conn"]
        num, den = self.p_notwritable
        blocked = set()
        forced = None
        if self.force_writable is not None:
            forced = self.force_writable(net.round, cands)
        if forced is not None:
            blocked = {s.idx for s in cands if s.idx not in forced}
        elif num and cands and ch.flag("wr.some", 1, 2):
            for s in cands:
                if s.idx in self.always_writable:
                    continue
                if ch.flag("wr.notwritable", num, den):
                    blocked.add(s.idx)
                    net.stats["notwritable"] += 1
        self.round_blocked = blocked
        # connections accepted later in this round have empty buffers: writable
        net.wprobe[net.round] = _Writable(blocked, net)
        net.log("ROUND_WRITABLE", net.round, tuple(sorted(blocked)))

    def _mgr_wprobe(self, wlist):
        net = self.net
        cands = [s for s in wlist if s.kind == "conn"]
        blocked = getattr(self, "round_blocked", set())
        writable = [s for s in cands if s.idx not in blocked]
        sq = net.log("MGR_WPROBE", net.round, tuple(sorted(s.idx for s in writable)), tuple(s.idx for s in cands))
        net.probe_rounds.add(net.round)
        net.probe_seq.setdefault(net.round, sq)
        return [], writable, []

    def on_shuffle(self, lst):
        net = self.net
        order = tuple(s.idx for s in lst)
        net.log("MGR_ORDER", net.round, order)
        if len(order) > 1:
            ready = net.rounds_ready.get(net.round, ())
            # signature: ready-set size x permutation pattern (relative) -- interleaving measure
            rank = tuple(sorted(order).index(x) for x in order)
            net.round_sigs.add((len(ready), rank))

    # ----- blocking in recv -----------------------------------------------------
    def block_in_recv(self, sock: SimSocket, need: int):
        if self.baton.current is self.mgr_task:
            net = self.net
            net.stats["midframe_blocks"] += 1
            net.log("MGR_BLOCK", sock.idx, need, len(sock.rx_arrived))
            self.mgr_state = "recv"
            self.mgr_blocked_sock = sock
            self.mgr_blocked_need = need
            self._yield_to_driver()
            self.mgr_state = "running"
            self.mgr_blocked_sock = None
            # on resume the scheduler lets more of this pipe arrive
            if sock.rx_inflight or sock.rx_fin == 1 or sock.rx_rst == 1:
                ch = self.choices
                how = ch.weighted("arr.blocked", [(4, 0), (1, 1), (1, 2)])
                short = need - len(sock.rx_arrived)
                if how == 0 or sock.starve >= 4 or len(sock.rx_inflight) <= 1:
                    sock.arrive()
                elif how == 1:
                    sock.arrive(min(short, len(sock.rx_inflight)))
                else:
                    sock.arrive(1 + ch.pick("arr.cut", len(sock.rx_inflight) - 1))
                    sock.starve += 1
            return
        # driver thread (a real Client blocked in recv)
        self._driver_wait(sock, None, need)

    # ----- select / sleep as seen by the driver (real Client code) --------------
    def peer_select(self, rlist, wlist, timeout):
        for s in rlist + wlist:
            if s.closed:
                raise ValueError("file descriptor cannot be a negative integer (-1)")
        if timeout is not None and timeout < 0:
            raise ValueError("timeout must be non-negative")
        if wlist and not rlist:
            # a client's own socket may be unable to take data for a while (full send buffer, busy manager):
            # a blocking wait sits it out, a wait with a timeout shorter than the stall comes back empty
            num, den = self.p_peer_stall
            if num and self.choices.flag("peer.stall", num, den):
                d = self.choices.choose("peer.stall.d", [0.3, 1.5, 4.0])
                self.net.stats["peer_write_stall"] += 1
                if timeout is not None and timeout < d:
                    self.clock.advance(timeout)
                    self.net.stats["peer_write_stall_expired"] += 1
                    return [], [], []
                self.clock.advance(d)
            return [], list(wlist), []
        s = rlist[0]
        if s.readable():
            return [s], [], []
        if timeout == 0:
            return [], [], []
        deadline = None if timeout is None else self.clock.now + timeout
        self._driver_wait(s, deadline, 1)
        if s.readable():
            return [s], [], []
        return [], [], []

    def _driver_wait(self, sock: SimSocket, deadline, need: int):
        """Driver blocks until sock has `need` bytes / EOF, or the virtual deadline."""
        spins = 0
        while True:
            if len(sock.rx_arrived) >= need or sock.rx_fin == 2 or sock.rx_rst == 2:
                return
            if self.driver_block_hook is not None:
                # a scripted peer owns the decision: True = progress made, "expire" = let the
                # deadline pass, False = nothing more will ever come
                r = self.driver_block_hook(sock, need, deadline)
                spins += 1
                if spins > 100000:
                    raise SimStall("driver block hook makes no progress")
                if r == "expire" or (not r and deadline is not None):
                    if deadline is None:
                        raise SimStall("block hook asked to expire a wait without deadline")
                    if self.clock.now < deadline:
                        self.clock.advance(deadline - self.clock.now)
                    return
                if not r:
                    raise SimStall("driver blocked for ever: the scripted peer has nothing more to send")
                continue
            if sock.rx_inflight or sock.rx_fin == 1 or sock.rx_rst == 1:
                sock.arrive()
                continue
            if deadline is not None and self.clock.now >= deadline:
                return
            if self.mgr_task is None or self.mgr_task.done:
                if deadline is None:
                    raise SimStall("driver blocked with no manager")
                self.clock.advance(deadline - self.clock.now)
                return
            spins += 1
            if spins > 5000:
                raise SimStall("driver blocked for 5000 manager steps")
            if self.mgr_state == "select" and not self.pending_for_manager():
                # nothing can happen except timers: jump (bounded by the deadline)
                if deadline is None and spins > 200:
                    raise SimStall("driver blocked for ever: manager idle, nothing in flight")
            self.step()

    def sleep(self, d: float):
        """time.sleep from pyrtma code on the driver thread (Client.disconnect)."""
        if self.baton.current is self.mgr_task:
            self.clock.advance(d)
            return
        target = self.clock.now + d
        if self.sleep_steps and self.mgr_task is not None and not self.mgr_task.done:
            k = self.choices.pick("sleep.steps", 4)
            for _ in range(k):
                self.step()
        if self.clock.now < target:
            self.clock.advance(target - self.clock.now)

    # ----- driver helpers --------------------------------------------------------
    def pending_for_manager(self) -> bool:
        """anything written towards the manager that it has not consumed / noticed yet
        (judged at the socket seam, not from manager internals)"""
        if self.mgr is None:
            return False
        for s in getattr(self, "last_rlist", ()):
            if s.closed:
                continue
            if s.pending_towards():
                return True
        return False

    quiesce_limit = 400

    def quiesce(self, limit: int = None) -> int:
        """Step the manager until it idles at select with nothing left to read."""
        if limit is None:
            limit = self.quiesce_limit
        n = 0
        while True:
            if self.mgr_task.done:
                self._raise_if_crashed()
                return n
            if self.mgr_state == "select" and not self.pending_for_manager():
                return n
            if self.mgr_state == "recv":
                s = self.mgr_blocked_sock
                if not (s.rx_inflight or s.rx_fin or s.rx_rst):
                    # the sender withholds the rest of a frame: caller must resolve
                    return -1
            n += 1
            if n > limit:
                from collections import Counter
                eofs = Counter(c for (_s, c, how) in self.net.ends if how in ("eof", "rst"))
                worst = eofs.most_common(1)
                if worst and worst[0][1] >= 20:
                    self.manager_crash = ManagerSpins(worst[0][0], worst[0][1])
                    self.net.log("MGR_SPIN", worst[0][0])
                    raise self.manager_crash
                raise SimStall(f"no quiescence after {limit} steps (state {self.mgr_state})")
            self.step()

    def advance(self, dt: float):
        self.clock.advance(dt)
        self.net.stats["clock_jumps"] += 1
        self.net.log("CLOCK", round(self.clock.now, 6))

    # ----- teardown --------------------------------------------------------------
    def teardown(self):
        self.shutting_down = True
        self.net.logging_on = False
        try:
            if self.mgr is not None:
                self.mgr._keep_running = False
            self.baton.kill_all()
        finally:
            self.unpatch()
            for name in self._loggers:
                logging.Logger.manager.loggerDict.pop(name, None)
            self._loggers.clear()

    def register_client_logger(self, client):
        try:
            client.logger.enable_console = False
            self._loggers.append(client.logger.logger.name)
        except Exception:
            pass

    # ----- digest ----------------------------------------------------------------
    def digest(self) -> str:
        h = hashlib.sha256()
        for ev in self.net.events:
            h.update(repr(ev).encode())
        return h.hexdigest()
