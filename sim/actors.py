"""Raw protocol actors: byte-level scripted clients using the independent codec."""
from __future__ import annotations

from typing import List, Optional

from . import codec as C
from .net import SimSocket

TAG_BASE = 1.0e9


class Sent:
    __slots__ = ("tag", "actor", "hdr", "payload", "seq")

    def __init__(self, tag, actor, hdr, payload, seq):
        self.tag = tag
        self.actor = actor
        self.hdr = hdr
        self.payload = payload
        self.seq = seq


class Actor:
    def __init__(self, world, name: str):
        self.w = world
        self.name = name
        self.sock: Optional[SimSocket] = None
        self.req_id = 0            # id asked for (0 = dynamic)
        self.mod_id = 0            # id to put in src_mod_id of published frames
        self.is_logger = False
        self.unique = True
        self.mname = b""
        self.pid = 0
        self.proto = "v2v1"
        self.tail = b""            # withheld remainder of a partially sent frame
        self.sent: List[Sent] = []
        self.death_seq: Optional[int] = None
        self.open_seq: Optional[int] = None
        self.handshake_sent = False
        self.left = None           # how it left
        self.host_id = 0

    # connection ----------------------------------------------------------------
    def open(self):
        s = SimSocket(self.w.net, "peer")
        s.tag = self.name
        s.connect(("127.0.0.1", self.w.PORT))
        self.sock = s
        self.open_seq = self.w.net.seq
        return s

    @property
    def conn(self) -> int:
        """index of the manager-side socket of this connection"""
        return self.sock.peer.idx

    @property
    def alive(self) -> bool:
        return self.sock is not None and not self.sock.closed

    # sending --------------------------------------------------------------------
    def frame(self, msg_type, payload=b"", *, src=None, dest_mod=0, dest_host=0, tagged=True,
              num_data_bytes=None, **extra) -> bytes:
        w = self.w
        if tagged:
            w.tag_counter += 1
            tag = TAG_BASE + w.tag_counter
        else:
            tag = 0.0
        fields = dict(msg_type=msg_type, msg_count=len(self.sent), send_time=tag,
                      src_host_id=self.host_id,
                      src_mod_id=self.mod_id if src is None else src,
                      dest_host_id=dest_host, dest_mod_id=dest_mod,
                      num_data_bytes=len(payload) if num_data_bytes is None else num_data_bytes)
        fields.update(extra)
        raw = C.pack_hdr(w.timecode, **fields)
        h = C.unpack_hdr(w.timecode, raw)
        self.sent.append(Sent(tag, self, h, bytes(payload), w.net.seq))
        if tagged:
            w.sent_by_tag[tag] = self.sent[-1]
        return raw + bytes(payload)

    def send_raw(self, data: bytes):
        if self.tail:
            data = self.tail + data
            self.tail = b""
        self._tx(data)

    def _tx(self, data):
        if self.sock.closed:
            self.tail = b""
            return
        try:
            self.sock.sendall(data)
        except ConnectionError:
            # the manager closed this connection: the actor notices and gives up
            self.tail = b""
            if not self.sock.closed:
                self.sock.die("fin")
                self.death_seq = self.w.net.seq
                self.left = "lost"

    def send(self, msg_type, payload=b"", **kw):
        self.send_raw(self.frame(msg_type, payload, **kw))

    def send_partial(self, data: bytes, k: int):
        """Write the first k bytes now and withhold the rest (completed or abandoned later)."""
        if self.tail:
            data = self.tail + data
            self.tail = b""
        self._tx(data[:k])
        self.tail = data[k:] if self.alive else b""

    def flush_tail(self):
        if self.tail and self.alive:
            t, self.tail = self.tail, b""
            self._tx(t)

    # protocol helpers -----------------------------------------------------------
    def handshake(self, proto="v2v1", req_id=0, logger=False, allow_multiple=False,
                  name: bytes = b"", pid=1234, daemon=False, hdr_src=None, logger_status=None):
        # hdr_src: what a CONNECT_V2 sender puts into the header's source field (the request itself is in the
        # payload); None = the requested id, as pyrtma.Client does
        self.proto = proto
        self.req_id = req_id
        self.mod_id = req_id
        self.is_logger = logger
        self.unique = not allow_multiple
        self.mname = name
        self.pid = pid
        self.handshake_sent = True
        # logger_status: the raw value of the 16-bit field (only 1 means "logger"); None = 0 / 1 as logger says
        lst = int(logger) if logger_status is None else logger_status
        if proto in ("v2v1", "v2"):
            self.send(C.MT_CONNECT_V2,
                      C.pack_connect_v2(lst, int(daemon), int(allow_multiple), req_id, pid,
                                        name), src=req_id if hdr_src is None else hdr_src)
        if proto in ("v2v1", "v1"):
            self.send(C.MT_CONNECT, C.pack_connect(lst, int(daemon)),
                      src=req_id if (hdr_src is None or proto == "v1") else hdr_src)
        if proto == "v1":
            self.unique = True
            self.mname = b""
            self.pid = 0

    # destination fields a sender puts into the header of its control frames (they carry no meaning there;
    # pyrtma.Client sends 0/0)
    ctl_dest = (0, 0)

    ctl_extra = {}

    def _ctl(self, mt, t):
        dm, dh = self.ctl_dest
        self.send(mt, C.pack_sub(t), dest_mod=dm, dest_host=dh, **self.ctl_extra)

    def subscribe(self, t):
        self._ctl(C.MT_SUBSCRIBE, t)

    def unsubscribe(self, t):
        self._ctl(C.MT_UNSUBSCRIBE, t)

    def pause(self, t):
        self._ctl(C.MT_PAUSE_SUBSCRIPTION, t)

    def resume(self, t):
        self._ctl(C.MT_RESUME_SUBSCRIPTION, t)

    def disconnect(self):
        self.send(C.MT_DISCONNECT)

    def leave(self, kind="fin"):
        if self.alive:
            self.tail = b""
            self.sock.die(kind)
            self.death_seq = self.w.net.seq
            self.left = kind
            self.w.net.stats[kind] += 1

    # receiving ------------------------------------------------------------------
    def received(self):
        """(frames, leftover) of everything the manager successfully sent to this actor."""
        return C.split_frames(self.w.timecode, self.sock.rx_log)

    def learn_id(self):
        """Adopt the id from the first ACK (dynamic ids)."""
        frames, _ = self.received()
        for h, _p in frames:
            if h.msg_type == C.MT_ACKNOWLEDGE and h.src_mod_id == 0:
                self.mod_id = h.dest_mod_id
                return h.dest_mod_id
        return None
