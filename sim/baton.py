"""Baton-passing real threads: exactly one runs at any instant.

A thread gives the baton up only inside a simulator-owned call, and the simulator
(never the OS) decides who gets it next, so runs replay exactly.
"""
from __future__ import annotations

import sys
import threading
import _thread
from typing import Callable, List, Optional

# Use the *real* threading primitives even when a module under test has had its
# ``threading`` global replaced by the simulator.
_RealThread = threading.Thread
_allocate_lock = _thread.allocate_lock


class SimShutdown(BaseException):
    """Raised inside a parked task to unwind it at the end of a run."""


class SimInternalError(BaseException):
    """A bug in simulator or oracle code (exit 2, never a VIOLATION)."""


class TaskHung(BaseException):
    """A task never came back to a simulator call within the wall limit."""

    def __init__(self, task, where):
        super().__init__(f"task {task.name} hung at {where}")
        self.task = task
        self.where = where


class Task:
    __slots__ = ("name", "fn", "thread", "lock", "done", "exc", "started", "baton",
                 "blocked_on", "kill", "result", "abandoned")

    def __init__(self, baton: "Baton", name: str, fn: Optional[Callable]):
        self.name = name
        self.fn = fn
        self.baton = baton
        self.lock = _allocate_lock()
        self.lock.acquire()  # parked
        self.done = False
        self.exc: Optional[BaseException] = None
        self.started = False
        self.blocked_on = None
        self.kill = False
        self.thread = None
        self.result = None
        self.abandoned = False     # blocked for ever inside the code under test (never scheduled again)

    def __repr__(self):
        return f"<Task {self.name}>"


class Baton:
    """Cooperative hand-off between real threads."""

    HANG_WALL_S = 90.0

    def __init__(self):
        self.main = Task(self, "driver", None)
        self.main.started = True
        self.current: Task = self.main
        self.tasks: List[Task] = [self.main]
        self.switches = 0

    def spawn(self, name: str, fn: Callable, on_exit_to: Optional[Task] = None) -> Task:
        t = Task(self, name, fn)
        exit_to = on_exit_to or self.main

        def body():
            t.lock.acquire()  # wait for first hand-off
            try:
                if t.kill:
                    raise SimShutdown()
                t.result = fn()
            except SimShutdown:
                pass
            except BaseException as e:  # recorded; the driver decides what it means
                t.exc = e
            finally:
                t.done = True
                nxt = self._exit_target(t, exit_to)
                self.current = nxt
                nxt.lock.release()

        th = _RealThread(target=body, name=f"sim-{name}", daemon=True)
        t.thread = th
        self.tasks.append(t)
        th.start()
        t.started = True
        return t

    def _exit_target(self, t: Task, preferred: Task) -> Task:
        return preferred

    def switch(self, to: Task) -> None:
        """Give the baton to ``to`` and park until somebody gives it back."""
        me = self.current
        if to is me:
            return
        if me.kill:
            raise SimShutdown()
        if to.done:
            raise SimInternalError(f"switch to finished task {to.name}")
        self.switches += 1
        self.current = to
        to.lock.release()
        if me.abandoned:
            me.lock.acquire()          # parked for good (daemon thread)
            raise SimShutdown()
        if not me.lock.acquire(timeout=self.HANG_WALL_S):
            # the other side never came back to a simulator call
            where = "?"
            try:
                fr = sys._current_frames().get(to.thread.ident) if to.thread else None
                stack = []
                while fr is not None and len(stack) < 6:
                    stack.append(f"{fr.f_code.co_filename.rsplit('/', 1)[-1]}:{fr.f_lineno}:{fr.f_code.co_name}")
                    fr = fr.f_back
                where = " <- ".join(stack)
            except Exception:
                pass
            self.current = me
            raise TaskHung(to, where)
        if me.kill:
            raise SimShutdown()

    def kill_all(self) -> None:
        """Unwind every parked task (called by the driver at teardown)."""
        me = self.current
        for t in self.tasks:
            if t is me or t.done or t is self.main or t.abandoned:
                continue
            t.kill = True
            self.current = t
            t.lock.release()
            if not me.lock.acquire(timeout=self.HANG_WALL_S):
                raise TaskHung(t, "teardown")
        self.current = me
