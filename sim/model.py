"""Reference models (DESIGN.md section 4): pub/sub routing, acknowledgement, identity.

Driven by what the socket seam observed (frames the manager read, in read order; ends of
connections the manager noticed; the writable set the simulator reported per round).  Does not
read manager internals.
"""
from __future__ import annotations

from typing import Dict, List, Optional, Set

from . import codec as C

ALL = C.ALL_MESSAGE_TYPES

MUST_ACCEPT = "accept"
MUST_REFUSE = "refuse"
DONT_CARE = "dontcare"
IGNORED = "ignored"


class MConn:
    __slots__ = ("conn", "connected", "mod_id", "is_logger", "unique", "name", "pid", "subs",
                 "alive", "removed_seq", "removed_how", "accepted_seq", "dynamic", "port",
                 "is_daemon", "connect_seq", "early")

    def __init__(self, conn, seq, port):
        self.conn = conn
        self.connected = False
        self.mod_id = 0
        self.is_logger = False
        self.is_daemon = False
        self.unique = True
        self.name = b""
        self.pid = 0
        self.subs: Set[int] = set()
        self.alive = True
        self.removed_seq = None
        self.removed_how = None
        self.accepted_seq = seq
        self.connect_seq = None
        self.dynamic = False
        self.port = port
        self.early = False      # sent non-connect frames before completing a handshake


class Delivery:
    __slots__ = ("fr", "sender", "eligible", "recipients", "dropped", "valid_dest", "wfailed",
                 "logger_waited", "sub_any")

    def __init__(self, fr, sender):
        self.fr = fr
        self.sender = sender
        self.eligible: List[int] = []
        self.recipients: List[int] = []
        self.dropped: List[int] = []
        self.valid_dest = True
        self.wfailed: List[int] = []
        self.logger_waited: List[int] = []
        self.sub_any: List[int] = []     # subscribed (type or ALL), before the destination filter


class Control:
    __slots__ = ("fr", "conn", "kind", "decision", "ack_expected", "loggers", "mod_id", "observed_ack",
                 "first_seq", "req")

    def __init__(self, fr, conn, kind):
        self.fr = fr
        self.conn = conn
        self.kind = kind
        self.decision = None
        self.ack_expected: Optional[bool] = None   # None = don't care
        self.loggers: List[int] = []               # live logger conns (other than sender) at that moment
        self.mod_id = None
        self.observed_ack = None
        self.first_seq = fr.seq
        self.req = None


def _cstr(b: bytes) -> bytes:
    return bytes(b).split(b"\0", 1)[0]


class PubSubModel:
    def __init__(self, net, mgr_name=b"message_manager"):
        self.net = net
        self.conns: Dict[int, MConn] = {}
        self.deliveries: List[Delivery] = []
        self.controls: List[Control] = []
        self.anomalies: List[str] = []
        self.mgr_name = mgr_name
        self.states_seen = set()
        self.hist: Dict[int, list] = {}      # conn -> [(seq, alive, subs, mod_id, is_logger)] in seq order

    # -------------------------------------------------------------------------------
    def live(self):
        return [m for m in self.conns.values() if m.alive]

    def decide_connect(self, me: MConn, req_id: int, unique: bool, name: bytes):
        """Identity model (DESIGN 4.3)."""
        if any(b >= 0x80 for b in name):
            return DONT_CARE      # a name that is not ascii may be refused (C03 only asks that the manager survives)
        if req_id == 0:
            used = {m.mod_id for m in self.live() if m is not me}
            free = [i for i in range(C.DYN_MOD_ID_START, C.MAX_MODULES) if i not in used]
            return MUST_ACCEPT if free else MUST_REFUSE
        if req_id < 0 or req_id > C.DYN_MOD_ID_START:
            return MUST_REFUSE
        decision = DONT_CARE if req_id == C.DYN_MOD_ID_START else MUST_ACCEPT
        # the manager itself is a unique module with id 0 and a name
        others = [(0, True, self.mgr_name)] + [(m.mod_id, m.unique, m.name) for m in self.live() if m is not me]
        for oid, ouniq, oname in others:
            if oid == req_id and (ouniq or unique):
                return MUST_REFUSE
            if name and oname == name:
                if ouniq:
                    return MUST_REFUSE
                if unique:
                    decision = DONT_CARE if decision != MUST_REFUSE else decision
        return decision

    def _snap(self, m: MConn, seq):
        self.hist.setdefault(m.conn, []).append((seq, m.alive, frozenset(m.subs), m.mod_id, m.is_logger))

    def state_at(self, conn, seq):
        """(alive, subs, mod_id, is_logger) of a connection as the manager saw it just before `seq`"""
        h = self.hist.get(conn)
        if not h:
            return None
        best = None
        for rec in h:
            if rec[0] < seq:
                best = rec
            else:
                break
        return best[1:] if best is not None else None

    def _remove(self, m: MConn, seq, how):
        if m.alive:
            m.alive = False
            m.removed_seq = seq
            m.removed_how = how
            self._snap(m, seq)

    # -------------------------------------------------------------------------------
    def run(self):
        net = self.net
        stream = []
        for ev in net.events:
            if ev[1] == "ACCEPT":
                stream.append((ev[0], 0, "accept", ev[2]))
        for fr in net.reads:
            if fr.complete:
                stream.append((fr.done_seq, 1, "frame", fr))
        for seq, conn, how in net.ends:
            stream.append((seq, 2, "end", (conn, how)))
        stream.sort(key=lambda x: (x[0], x[1]))
        # writes indexed per conn for ack observation
        acks: Dict[int, list] = {}
        for wfr in net.writes:
            h = wfr.hdr
            if h.msg_type == C.MT_ACKNOWLEDGE and h.src_mod_id == 0 and h.num_data_bytes == 0 \
                    and h.send_time < 1.0e9:      # (actors' own frames carry tags >= 1e9)
                acks.setdefault(wfr.conn, []).append(wfr)
        self.acks_by_conn = acks
        read_seqs = [fr.seq for fr in net.reads]
        # the manager interprets a control frame from its receive buffer; a data section shorter than the
        # definition leaves the rest of the buffer as the previous frames wrote it.  Replayed here so that a
        # SUBSCRIBE-family frame with fewer than four payload bytes is understood as the manager understands it.
        rx = bytearray(4)
        self.stale4 = {}
        for fr in sorted(net.reads, key=lambda f: f.seq):
            p = bytes(fr.payload[:4]) if fr.payload else b""
            rx[:len(p)] = p
            self.stale4[fr.seq] = bytes(rx)
        wfail_by_seq = list(net.wfails)

        import bisect

        for idx, (seq, _o, kind, obj) in enumerate(stream):
            if kind == "accept":
                sock = net.mgr_socks.get(obj)
                port = sock.peer.port if sock is not None and sock.peer is not None else 0
                self.conns[obj] = MConn(obj, seq, port)
                self._snap(self.conns[obj], seq)
                continue
            if kind == "end":
                conn, how = obj
                m = self.conns.get(conn)
                if m is not None:
                    self._remove(m, seq, how)
                continue
            fr = obj
            m = self.conns.get(fr.conn)
            if m is None:
                self.anomalies.append(f"frame read from never-accepted conn {fr.conn}")
                continue
            if not m.alive:
                self.anomalies.append(f"frame seq={fr.seq} read from conn {fr.conn} after its removal")
                continue
            # window of this frame's processing: until the next header read by the manager
            k = bisect.bisect_right(read_seqs, fr.seq)
            next_read = read_seqs[k] if k < len(read_seqs) else float("inf")
            h = fr.hdr
            t = h.msg_type
            if t in (C.MT_CONNECT, C.MT_CONNECT_V2):
                self._connect(m, fr, next_read)
            elif t == C.MT_DISCONNECT:
                c = Control(fr, fr.conn, "disconnect")
                c.ack_expected = False
                self._loggers(c, m)
                self.controls.append(c)
                self._remove(m, fr.done_seq, "disconnect")
            elif t in C.ACKED_TYPES:
                c = Control(fr, fr.conn, "sub")
                c.ack_expected = True
                c.mod_id = m.mod_id
                self._loggers(c, m)
                self.controls.append(c)
                if not m.connected:
                    m.early = True
                if True:
                    import struct
                    if len(fr.payload) >= 4:
                        (st,) = struct.unpack_from("<i", fr.payload)
                    else:
                        (st,) = struct.unpack("<i", self.stale4[fr.seq])
                        self.short_subs = getattr(self, "short_subs", 0) + 1
                    add = t in (C.MT_SUBSCRIBE, C.MT_RESUME_SUBSCRIPTION)
                    if st == ALL:
                        m.subs = {ALL} if add else set()
                    elif ALL in m.subs:
                        pass
                    elif add:
                        m.subs.add(st)
                    else:
                        m.subs.discard(st)
                else:
                    self.anomalies.append(f"short sub payload seq={fr.seq}")
            elif t == C.MT_CLIENT_SET_NAME:
                c = Control(fr, fr.conn, "setname")
                c.ack_expected = False
                self._loggers(c, m)
                self.controls.append(c)
                if len(fr.payload) >= 32:
                    m.name = _cstr(fr.payload[:32])
                if not m.connected:
                    m.early = True
            elif t == C.MT_MODULE_READY:
                c = Control(fr, fr.conn, "ready")
                c.ack_expected = False
                self._loggers(c, m)
                self.controls.append(c)
                if len(fr.payload) >= 4:
                    import struct
                    (m.pid,) = struct.unpack_from("<i", fr.payload)
                if not m.connected:
                    m.early = True
            else:
                c = Control(fr, fr.conn, "data")
                c.ack_expected = False
                self._loggers(c, m)
                self.controls.append(c)
                if not m.connected:
                    m.early = True
                self._deliver(m, fr, next_read)
            if m.alive:
                self._snap(m, fr.done_seq)
            self.states_seen.add(self._state_sig())

    def _loggers(self, c: Control, sender: MConn):
        c.loggers = [x.conn for x in self.live() if x.is_logger and x.connected and x is not sender]

    def _state_sig(self):
        return tuple(sorted((m.mod_id, m.is_logger, len(m.subs), ALL in m.subs)
                            for m in self.live() if m.connected))

    def _observed_ack(self, conn, lo, hi):
        for w in self.acks_by_conn.get(conn, ()):
            if lo < w.seq < hi:
                return w
        return None

    def _connect(self, m: MConn, fr, next_read):
        import struct
        h = fr.hdr
        c = Control(fr, fr.conn, "connect")
        self.controls.append(c)
        self._loggers(c, m)
        if m.connected:
            c.decision = IGNORED
            c.ack_expected = False
            return
        if h.msg_type == C.MT_CONNECT_V2:
            if len(fr.payload) < 44:
                c.decision = DONT_CARE
                c.ack_expected = None
                self.anomalies.append("short CONNECT_V2")
                return
            lg, dm, am, mid, pid, name = struct.unpack_from("<hhhhi32s", fr.payload)
            req_id, unique, name = mid, am == 0, _cstr(name)
        else:
            if len(fr.payload) >= 4:
                lg, dm = struct.unpack_from("<hh", fr.payload)
            else:
                lg, dm = 0, 0
                self.anomalies.append("short CONNECT")
            req_id, unique, name, pid = h.src_mod_id, m.unique, m.name, m.pid
        c.req = (req_id, unique, name, lg == 1)
        decision = self.decide_connect(m, req_id, unique, name)
        ack = self._observed_ack(fr.conn, fr.done_seq, next_read)
        c.observed_ack = ack
        c.decision = decision
        if decision == MUST_ACCEPT:
            c.ack_expected = True
        elif decision == MUST_REFUSE:
            c.ack_expected = False
        else:
            c.ack_expected = None
        # where the statement leaves the outcome open, follow what the manager did: it either acknowledged
        # the request or closed the connection while handling it
        closed_now = any(c_ == fr.conn and fr.done_seq < s_ < next_read for (s_, c_) in self.net.closes)
        accepted = (decision == MUST_ACCEPT) or (decision == DONT_CARE and (ack is not None or not closed_now))
        # identity fields are taken over by the manager before it decides (they show in CLIENT_CLOSED)
        m.unique = unique
        m.name = name
        m.pid = pid
        m.is_logger = lg == 1
        m.is_daemon = dm == 1
        if accepted:
            m.connected = True
            m.connect_seq = fr.done_seq
            if req_id == 0:
                m.dynamic = True
                # the id is whatever the acknowledgement says (its soundness is C06's oracle)
                if ack is not None:
                    m.mod_id = ack.hdr.dest_mod_id
                else:
                    # own ACK lost (peer already gone): learn the id from a logger's copy, if any
                    m.mod_id = -1
                    for lst in self.acks_by_conn.values():
                        for wf in lst:
                            if fr.done_seq < wf.seq < next_read:
                                m.mod_id = wf.hdr.dest_mod_id
            else:
                m.mod_id = req_id
            c.mod_id = m.mod_id
            c.loggers = [x for x in c.loggers]
        else:
            m.mod_id = req_id
            if decision == DONT_CARE:
                m.mod_id = -1         # what the manager had taken over before refusing is not determined
            self._remove(m, fr.done_seq, "refused")

    def _deliver(self, sender: MConn, fr, next_read):
        net = self.net
        h = fr.hdr
        d = Delivery(fr, sender.conn)
        self.deliveries.append(d)
        t = h.msg_type
        dm, dh = h.dest_mod_id, h.dest_host_id
        if dm < 0 or dm > C.MAX_MODULES or dh < 0 or dh > C.MAX_HOSTS:
            d.valid_dest = False
            return
        W = net.wprobe.get(fr.round)
        if W is None:
            self.anomalies.append(f"no writability decision for round {fr.round}")
            W = frozenset()
        for m in self.conns.values():
            if not m.alive:
                continue
            if not (t in m.subs or ALL in m.subs):
                continue
            d.sub_any.append(m.conn)
            if dm == 0 or m.mod_id == dm or m.is_logger:
                d.eligible.append(m.conn)
                if m.conn in W or m.is_logger:
                    d.recipients.append(m.conn)
                    if m.conn not in W:
                        d.logger_waited.append(m.conn)
                else:
                    d.dropped.append(m.conn)
        d.wfailed = [c for (s, c, _k, _e, mt, tag) in net.wfails
                     if fr.done_seq < s < next_read and mt == h.msg_type and tag == h.send_time]
