"""Seeded search runner: many short simulated runs across processes, minimisation, replay files,
known-findings handling and evidence."""
from __future__ import annotations

import faulthandler
import hashlib
import json
import multiprocessing
import os
import subprocess
import sys
import time
import traceback
from collections import Counter
from concurrent.futures import ProcessPoolExecutor, as_completed
from typing import Callable, Dict, List, Optional, Tuple

from .choices import Choices, ChoiceBudgetExceeded
from .baton import SimInternalError, TaskHung
from .net import SimStall

VERIF = os.path.dirname(os.path.dirname(os.path.abspath(__file__)))
RUN_WALL_S = 300         # per-run wall watchdog (generous: a loaded machine must not turn a heavy run into an error)
SEED_STRIDE = 1_000_003


class HarnessError(Exception):
    pass


def derive_seed(base: int, i: int) -> int:
    return (base * SEED_STRIDE + i) & 0x7FFFFFFFFFFF


def git_rev(path: str) -> str:
    try:
        rev = subprocess.run(["git", "-C", path, "rev-parse", "--short", "HEAD"], capture_output=True,
                             text=True, timeout=10).stdout.strip()
        dirty = subprocess.run(["git", "-C", path, "status", "--porcelain", "-uno"], capture_output=True,
                               text=True, timeout=10).stdout.strip()
        return rev + ("+dirty" if dirty else "")
    except Exception:
        return "?"


# --------------------------------------------------------------------------------------
# one run
# --------------------------------------------------------------------------------------
_CACHED = None
_PRISTINE_DEFS = None


def reset_process_caches():
    _reset_lru()
    # the table of registered message definitions as it is right after import
    global _PRISTINE_DEFS
    try:
        import pyrtma.message as PM
        if _PRISTINE_DEFS is None:
            if PM._msg_defs:
                _PRISTINE_DEFS = dict(PM._msg_defs)
        elif PM._msg_defs != _PRISTINE_DEFS:
            PM._msg_defs.clear()
            PM._msg_defs.update(_PRISTINE_DEFS)
    except Exception:
        pass


def _reset_lru():
    """Every run must start from the state a fresh process would have: memoised functions inside
    pyrtma (functools.lru_cache wrappers, found by their cache_clear attribute) are emptied."""
    global _CACHED
    if _CACHED is None or len(sys.modules) != _CACHED[0]:
        found = []
        for name, mod in list(sys.modules.items()):
            if mod is None or not (name == "pyrtma" or name.startswith("pyrtma.")):
                continue
            for attr, val in list(vars(mod).items()):
                if callable(getattr(val, "cache_clear", None)) and getattr(val, "__module__", "").startswith("pyrtma"):
                    found.append(val)
        _CACHED = (len(sys.modules), found)
    for fn in _CACHED[1]:
        try:
            fn.cache_clear()
        except Exception:
            pass


def execute(spec, choices: Choices, forced=None):
    """Run one simulated execution; returns (RunResult | None, error string | None)."""
    # (a deterministic case may declare that it needs longer than the usual per-run wall limit)
    faulthandler.dump_traceback_later(int((forced or {}).get("wall_s", RUN_WALL_S)) if isinstance(forced, dict)
                                      else RUN_WALL_S, exit=True)
    reset_process_caches()
    try:
        res = spec.run(choices, forced) if forced is not None else spec.run(choices)
        return res, None
    except (SimInternalError, SimStall, TaskHung, ChoiceBudgetExceeded) as e:
        return None, f"{type(e).__name__}: {e}\n{traceback.format_exc()}"
    except Exception as e:
        return None, f"harness exception {type(e).__name__}: {e}\n{traceback.format_exc()}"
    finally:
        faulthandler.cancel_dump_traceback_later()


def own_violations(spec, res):
    """Violations this check reports: its own property's oracle clauses, plus a dead manager."""
    out = [v for v in res.violations if v.prop == spec.prop]
    if res.crash and not spec.crash_is_own_oracle:
        from harness.base import Violation
        out.append(Violation(spec.prop, "manager_crash",
                             f"the manager died: {getattr(res, 'crash_detail', res.crash)}",
                             sig="manager_crash:" + res.crash))
    return out


def summarize(spec, seed, res, keep_trace=False):
    vs = own_violations(spec, res)
    d = {
        "seed": seed,
        "violations": [v.as_dict() for v in vs],
        "crash": res.crash,
        "digest": res.digest,
        "nontrivial": bool(res.nontrivial),
        "stats": dict(res.stats),
        "probes": dict(res.probes),
        "sim_seconds": res.sim_seconds,
        "n_choices": res.n_choices,
        "round_sigs": len(res.round_sigs),
        "sigs": [hashlib.md5(repr(s).encode()).hexdigest()[:12] for s in res.round_sigs],
        "states": [hashlib.md5(repr(s).encode()).hexdigest()[:12] for s in res.model_states],
        "enumerated": {k: sorted(v) for k, v in res.enumerated.items()},
    }
    if keep_trace or vs:
        d["trace"] = list(res.trace)
        d["config"] = res.config
    return d


def worker_batch(args):
    prop, seeds, keep_first = args
    from harness.registry import get_spec
    spec = get_spec(prop)
    spec.prepare()
    out = []
    for i, seed in enumerate(seeds):
        ch = Choices(seed)
        res, err = execute(spec, ch)
        if err is not None:
            out.append({"seed": seed, "error": err})
            continue
        d = summarize(spec, seed, res, keep_trace=(keep_first and i == 0))
        if d["violations"]:
            d["choices"] = ch.values()
        out.append(d)
    return out


# --------------------------------------------------------------------------------------
# minimisation
# --------------------------------------------------------------------------------------
def run_values(spec, values, forced=None):
    ch = Choices(replay=values)
    res, err = execute(spec, ch, forced)
    return res, err, ch


def det_batch(args):
    """worker: run a batch of deterministic (forced) cases, each completed by a seeded schedule"""
    prop, cases, base_seed = args
    from harness.registry import get_spec
    spec = get_spec(prop)
    spec.prepare()
    out = []
    for idx, case in cases:
        seed = derive_seed(base_seed + 7919, idx)
        ch = Choices(seed)
        res, err = execute(spec, ch, case)
        if err is not None:
            out.append({"seed": seed, "error": err, "forced": case})
            continue
        d = summarize(spec, seed, res)
        d["forced"] = case
        d["det"] = True
        if d["violations"]:
            d["choices"] = ch.values()
        out.append(d)
    return out


def minimise(spec, values: List[int], sig: str, budget_evals=3000, budget_s=60.0, forced=None):
    """Delta-debugging over the recorded choice list; keeps the same violation signature."""
    t0 = time.time()
    evals = 0

    def fails(vals):
        nonlocal evals
        evals += 1
        res, err, ch = run_values(spec, vals, forced)
        if err is not None or res is None:
            return False
        return any(v.sig == sig for v in own_violations(spec, res))

    def out_of_budget():
        return evals >= budget_evals or time.time() - t0 > budget_s

    cur = list(values)
    if not fails(cur):
        return cur, evals, False
    # 1. shortest failing prefix (binary search; exhausted choices read as 0)
    lo, hi = 0, len(cur)
    while lo < hi and not out_of_budget():
        mid = (lo + hi) // 2
        if fails(cur[:mid]):
            hi = mid
        else:
            lo = mid + 1
    if hi < len(cur) and fails(cur[:hi]):
        cur = cur[:hi]
    for _pass in range(4):
        before = list(cur)
        # 2. delete blocks
        n = max(1, len(cur) // 2)
        while n >= 1 and not out_of_budget():
            i = 0
            while i < len(cur) and not out_of_budget():
                cand = cur[:i] + cur[i + n:]
                if fails(cand):
                    cur = cand
                else:
                    i += n
            n //= 2
        # 3. zero / shrink single values (smaller value = plainer alternative / fewer operations)
        for i in range(len(cur)):
            if out_of_budget():
                break
            if i >= len(cur):
                break
            if cur[i] != 0:
                cand = list(cur)
                cand[i] = 0
                if fails(cand):
                    cur = cand
                    continue
                lo_v, hi_v = 0, cur[i]      # lo_v passes (does not fail), hi_v fails
                while hi_v - lo_v > 1 and not out_of_budget():
                    mid = (lo_v + hi_v) // 2
                    cand = list(cur)
                    cand[i] = mid
                    if fails(cand):
                        hi_v = mid
                    else:
                        lo_v = mid
                cur[i] = hi_v
        if cur == before or out_of_budget():
            break
    while cur and cur[-1] == 0:
        cur.pop()
    return cur, evals, True


def write_replay(spec, seed, values, vio, res, path, forced=None):
    data = {
        "forced": forced,
        "property": spec.prop,
        "harness": spec.harness,
        "seed": seed,
        "repo_rev": git_rev(os.environ.get("VERIF_REPO", "/repo")),
        "choices": list(values),
        "violation": {"clause": vio.clause, "sig": vio.sig, "detail": vio.detail,
                      "digest": res.digest},
        "config": res.config,
        "trace": list(res.trace),
    }
    os.makedirs(os.path.dirname(path), exist_ok=True)
    with open(path, "w") as f:
        json.dump(data, f, indent=1, default=str)
    return data


def replay_file(path: str):
    """Re-execute a replay file; returns (reproduced, detail, digest)."""
    from harness.registry import get_spec
    with open(path) as f:
        data = json.load(f)
    spec = get_spec(data["property"])
    spec.prepare()
    # "repeat_in_process": the same history is run that many times in this process and the last one is judged
    # (a second manager / client / recorder in a process that has had one before: state the code under test keeps on
    # a class or a module survives the first)
    for _ in range(max(1, int(data.get("repeat_in_process", 1)))):
        res, err, ch = run_values(spec, data["choices"], data.get("forced"))
        if err is not None:
            return False, "harness error: " + err, None, data
    want = data["violation"]["sig"]
    vs = own_violations(spec, res)
    for v in vs:
        if v.sig == want:
            return True, v.detail, res.digest, data
    if vs and os.environ.get("VERIF_ADOPT_OTHER"):
        # from a clean process the same schedule violates the property in another way: adopt that
        v = vs[0]
        data["violation"] = {"clause": v.clause, "sig": v.sig, "detail": v.detail, "digest": res.digest}
        data["trace"] = list(res.trace)
        with open(path, "w") as f:
            json.dump(data, f, indent=1, default=str)
        return True, v.detail, res.digest, data
    return False, "violation not reproduced", res.digest, data


def write_replay_from_summary(spec, d, v, path, repeat=1):
    data = {
        "repeat_in_process": repeat,
        "forced": d.get("forced"),
        "property": spec.prop,
        "harness": spec.harness,
        "seed": d["seed"],
        "repo_rev": git_rev(os.environ.get("VERIF_REPO", "/repo")),
        "choices": list(d["choices"]),
        "violation": {"clause": v["clause"], "sig": v["sig"], "detail": v["detail"], "digest": d.get("digest")},
        "config": d.get("config"),
        "trace": list(d.get("trace", [])),
    }
    os.makedirs(os.path.dirname(path), exist_ok=True)
    with open(path, "w") as f:
        json.dump(data, f, indent=1, default=str)


def settle_replay(path: str) -> bool:
    """The replay file must reproduce its violation from a clean process, twice, with one digest.
    The digest stored in the file is the one a clean process produces."""
    ok, out, digest = replay_in_fresh_process(path, want_digest=False)
    if not ok:
        return False
    with open(path) as f:
        data = json.load(f)
    if digest and data["violation"].get("digest") != digest:
        data["violation"]["digest"] = digest
        with open(path, "w") as f:
            json.dump(data, f, indent=1, default=str)
    ok2, out2, _ = replay_in_fresh_process(path, want_digest=True)
    return ok2


def _replay_in_fresh_process_old(path: str) -> Tuple[bool, str]:
    env = dict(os.environ)
    env["PYTHONHASHSEED"] = "0"
    p = subprocess.run([sys.executable, os.path.join(VERIF, "run_check.py"), "--replay", path],
                       capture_output=True, text=True, timeout=300, env=env)
    ok = p.returncode == 1 and "VIOLATION property=" in p.stdout and "digest=same" in p.stdout
    return ok, p.stdout[-2000:] + p.stderr[-2000:]


def replay_in_fresh_process(path: str, want_digest=True, adopt=False):
    env = dict(os.environ)
    env["PYTHONHASHSEED"] = "0"
    if adopt:
        env["VERIF_ADOPT_OTHER"] = "1"
    else:
        env.pop("VERIF_ADOPT_OTHER", None)
    p = subprocess.run([sys.executable, os.path.join(VERIF, "run_check.py"), "--replay", path],
                       capture_output=True, text=True, timeout=300, env=env)
    ok = p.returncode == 1 and "VIOLATION property=" in p.stdout
    if want_digest:
        ok = ok and "digest=same" in p.stdout
    digest = None
    for line in p.stdout.splitlines():
        if line.strip().startswith("digest-value="):
            digest = line.strip().split("=", 1)[1]
    return ok, p.stdout[-2000:] + p.stderr[-2000:], digest


# --------------------------------------------------------------------------------------
# known findings
# --------------------------------------------------------------------------------------
def load_known():
    path = os.path.join(VERIF, "known_findings.json")
    if not os.path.exists(path):
        return {"findings": [], "fixed": []}
    with open(path) as f:
        return json.load(f)


def match_known(known, prop: str, vio: dict):
    for k in known.get("findings", []):
        if k.get("property") != prop:
            continue
        if k.get("sig") == vio["sig"]:
            return k
    return None


# --------------------------------------------------------------------------------------
# batch driver
# --------------------------------------------------------------------------------------
def run_property(prop: str, tier: str, base_seed: int, workers: int, budget_s: float,
                 min_runs: int = 0, max_runs: Optional[int] = None, batch: int = 50,
                 quiet=False) -> int:
    from harness.registry import get_spec
    spec = get_spec(prop)
    spec.prepare()
    t0 = time.time()
    known = load_known()
    agg = {
        "runs": 0, "errors": [], "violations": [], "known_hits": Counter(), "stats": Counter(),
        "probes": Counter(), "sim_seconds": 0.0, "digests": set(), "nontrivial_digests": set(),
        "sigs": set(), "states": set(), "samples": [], "n_choices": 0, "aborted_known_crash": 0,
        "enumerated": {},
    }
    # deterministic part first (finite fault tables), then seeded search until the budget is spent
    det = spec.deterministic_cases(tier)
    ctx = multiprocessing.get_context("fork")
    next_i = 0
    stop = False
    pending = set()
    batch = spec.batch or batch

    def submit(ex):
        nonlocal next_i
        seeds = [derive_seed(base_seed, next_i + j) for j in range(batch)]
        keep = next_i == 0
        next_i += batch
        return ex.submit(worker_batch, (prop, seeds, keep))

    def absorb(results):
        nonlocal stop
        for d in results:
            if "error" in d:
                agg["errors"].append(d)
                stop = True
                continue
            agg["runs"] += 1
            if d.get("det"):
                agg["det_done"] = agg.get("det_done", 0) + 1
            agg["stats"].update(d["stats"])
            agg["probes"].update(d["probes"])
            agg["sim_seconds"] += d["sim_seconds"]
            agg["n_choices"] += d["n_choices"]
            agg["digests"].add(d["digest"])
            if d["nontrivial"]:
                agg["nontrivial_digests"].add(d["digest"])
            agg["sigs"].update(d["sigs"])
            agg["states"].update(d["states"])
            for k, v in d.get("enumerated", {}).items():
                agg["enumerated"].setdefault(k, set()).update(v)
            if "trace" in d and len(agg["samples"]) < 3 and not d["violations"]:
                agg["samples"].append({"seed": d["seed"], "config": d.get("config"),
                                       "trace": d["trace"][:60]})
            for v in d["violations"]:
                k = match_known(known, prop, v)
                if k is not None:
                    agg["known_hits"][k["sig"]] += 1
                else:
                    agg["violations"].append((d, v))
                    sigs = {x[1]["sig"] for x in agg["violations"]}
                    if len(agg["violations"]) >= 75 or (len(sigs) >= 3 and len(agg["violations"]) >= 40):
                        stop = True

    try:
        with ProcessPoolExecutor(max_workers=workers, mp_context=ctx) as ex:
            futs = set()
            det_cases = list(enumerate(det))
            agg["det_total"] = len(det_cases)
            for i in range(0, len(det_cases), 40):
                futs.add(ex.submit(det_batch, (prop, det_cases[i:i + 40], base_seed)))
            for _ in range(workers * 2):
                futs.add(submit(ex))
            while futs:
                done = None
                for f in as_completed(futs):
                    done = f
                    break
                futs.discard(done)
                if done.cancelled():
                    continue
                absorb(done.result())
                elapsed = time.time() - t0
                more = (not stop) and (elapsed < budget_s or agg["runs"] < min_runs) \
                    and (max_runs is None or next_i < max_runs)
                if more:
                    futs.add(submit(ex))
                elif stop:
                    for f in futs:
                        f.cancel()
    except Exception as e:   # BrokenProcessPool: a worker died (watchdog / crash)
        print(f"HARNESS-ERROR property={prop} worker pool failed: {type(e).__name__}: {e}")
        return 2
    wall = time.time() - t0

    if agg["errors"]:
        e = agg["errors"][0]
        print(f"HARNESS-ERROR property={prop} seed={e['seed']}\n{e['error']}")
        write_evidence(spec, tier, base_seed, agg, wall, 0, harness_error=True)
        return 2

    # unknown violations: minimise, write replay, verify replay in fresh processes.
    # Several candidate runs are kept per violation signature: if the code under test keeps state across
    # runs of one worker process (a cache on a class, a module-level list) a violating run need not
    # reproduce from a clean process; only a candidate that does is reported.
    reported = 0
    unreproducible = []
    by_sig = {}
    for d, v in agg["violations"]:
        by_sig.setdefault(v["sig"], []).append((d, v))
    rdir = os.environ.get("VERIF_REPLAY_DIR") or os.path.join(VERIF, "replays")
    for sig in list(by_sig)[:3]:
        done = False
        tried = 0
        tag = hashlib.md5(sig.encode()).hexdigest()[:6]
        chosen = None
        for d, v in by_sig[sig][:25]:
            tried += 1
            path = os.path.join(rdir, f"{prop}-{d['seed']}-{tag}.json")
            write_replay_from_summary(spec, d, v, path)
            ok, out, digest = replay_in_fresh_process(path, want_digest=False, adopt=True)
            if ok:
                with open(path) as f:
                    adopted = json.load(f)["violation"]
                if adopted["sig"] != sig:
                    v = dict(v, clause=adopted["clause"], sig=adopted["sig"], detail=adopted["detail"])
                    d = dict(d, adopted=True)
                chosen = (d, v, path)
                break
            try:
                os.remove(path)
            except OSError:
                pass
        if chosen is not None:
            d, v, path = chosen
            values = d["choices"]
            forced = d.get("forced")
            sig_here = v["sig"]
            # minimise in this process when the run reproduces here too
            res, err, ch = run_values(spec, values, forced)
            here = (not d.get("adopted")) and any(x.sig == sig for x in (own_violations(spec, res) if res is not None else []))
            if here:
                mvals, evals, ok = minimise(spec, values, sig, forced=forced)
                res2, err2, ch2 = run_values(spec, mvals, forced)
                vio2 = None
                for x in (own_violations(spec, res2) if res2 is not None else []):
                    if x.sig == sig:
                        vio2 = x
                if vio2 is not None:
                    mpath = path
                    write_replay(spec, d["seed"], mvals, vio2, res2, mpath, forced)
                    if settle_replay(mpath):
                        print(f"violation: {vio2.clause}: {vio2.detail}")
                        print(f"  seed={d['seed']} choices {len(values)} -> {len(mvals)} after {evals} evaluations")
                        print(f"VIOLATION property={prop} replay={mpath}")
                        reported += 1
                        done = True
            if not done:
                if not d.get("adopted"):
                    write_replay_from_summary(spec, d, v, path)
                if settle_replay(path):
                    print(f"violation: {v['clause']}: {v['detail']}")
                    print(f"  seed={d['seed']} (not minimised: only the original schedule reproduces from a clean process)")
                    print(f"VIOLATION property={prop} replay={path}")
                    reported += 1
                    done = True
        if not done:
            # no candidate reproduces from a clean process on its own.  If the same history run twice in one clean
            # process does (deterministically, twice), the code under test carries state from one manager / client /
            # recorder of a process to the next one: that is reported, with a replay file that says so.
            for d, v in by_sig[sig][:4]:
                path = os.path.join(rdir, f"{prop}-{d['seed']}-{tag}.json")
                write_replay_from_summary(spec, d, v, path, repeat=2)
                if settle_replay(path):
                    print(f"violation: {v['clause']}: {v['detail']}")
                    print(f"  seed={d['seed']} (only when the same history has already run once in the same process: "
                          f"the code under test keeps state across instances; replay file has repeat_in_process=2)")
                    print(f"VIOLATION property={prop} replay={path}")
                    reported += 1
                    done = True
                    break
                try:
                    os.remove(path)
                except OSError:
                    pass
        if not done:
            unreproducible.append((sig, len(by_sig[sig]), tried))
    if unreproducible and not reported:
        sig, n_seen, tried = unreproducible[0]
        print(f"HARNESS-ERROR property={prop} violation {sig} was seen in {n_seen} runs but none of the "
              f"{tried} tried reproduces from a clean process (state leaking between runs / nondeterminism)")
        write_evidence(spec, tier, base_seed, agg, wall, 0, harness_error=True)
        return 2
    for sig, n_seen, tried in unreproducible:
        print(f"note: {sig} was also seen in {n_seen} runs of this batch but did not reproduce from a clean process; "
              f"not reported")
    for sig, n in agg["known_hits"].items():
        k = [x for x in known["findings"] if x["sig"] == sig][0]
        print(f"KNOWN-FINDING: property={prop} {k['what']} (seen in {n} runs)")
    write_evidence(spec, tier, base_seed, agg, wall, reported)
    if not quiet:
        rph = agg["runs"] / wall * 3600 if wall > 0 else 0
        print(f"{prop} {tier}: {agg['runs']} runs in {wall:.1f}s ({rph:,.0f} runs/h), "
              f"{len(agg['nontrivial_digests'])} distinct non-trivial, violations={reported}, "
              f"known={sum(agg['known_hits'].values())}")
    return 1 if reported else 0


def write_evidence(spec, tier, base_seed, agg, wall, violations, harness_error=False):
    evdir = os.environ.get("VERIF_EVIDENCE_DIR") or os.path.join(VERIF, "evidence")
    os.makedirs(evdir, exist_ok=True)
    probes_zero = [p for p in spec.expected_probes if not agg["probes"].get(p)]
    runs = agg["runs"]
    cov = {
        "evaluations": runs,
        "distinct_nontrivial": len(agg["nontrivial_digests"]),
        "rule": spec.rule,
        "samples": agg["samples"] or [{"note": "no sample recorded"}],
        "exhaustive": False,
        "deterministic_cases": {"done": agg.get("det_done", 0), "total": agg.get("det_total", 0)},
        "runs_per_hour": round(runs / wall * 3600) if wall > 0 else 0,
        "seeds": {"base": base_seed, "derivation": f"(base*{SEED_STRIDE}+i) & 0x7fffffffffff, i=0..{runs - 1}"},
        "sim_seconds": round(agg["sim_seconds"], 3),
        "choices_drawn": agg["n_choices"],
        "distinct_digests": len(agg["digests"]),
        "faults_fired": {k: v for k, v in sorted(agg["stats"].items())},
        "probes": {k: v for k, v in sorted(agg["probes"].items())},
        "probes_zero": probes_zero,
        "round_signatures": len(agg["sigs"]),
        "model_states": len(agg["states"]),
        "enumerated": {k: len(v) for k, v in agg["enumerated"].items()},
        "known_findings_seen": dict(agg["known_hits"]),
        "components": spec.components,
        "repo_rev": git_rev(os.environ.get("VERIF_REPO", "/repo")),
    }
    if harness_error:
        cov["harness_error"] = True
    ev = {
        "property_id": spec.prop,
        "tier": tier,
        "seed": base_seed,
        "level": spec.level,
        "coverage": cov,
        "assumptions": spec.assumptions,
        "wall_s": round(wall, 2),
        "violations": violations,
    }
    with open(os.path.join(evdir, f"{spec.prop}.json"), "w") as f:
        json.dump(ev, f, indent=1, default=str)
