"""Harness `departure` (C07): a departed client leaves no trace."""
from __future__ import annotations

from collections import Counter

from sim import codec as C
from sim.actors import Actor, TAG_BASE
from sim.model import PubSubModel, MUST_ACCEPT, ALL
from sim.world import ManagerCrashed
from .base import RunResult
from .pubsub import PubSubRun, PROFILES, payload_for

PROFILES["C07"] = dict(notw=[(0, 1), (0, 1), (1, 8)], ops=14, edge_types=False, leave_w=6, ctl_w=4,
                       pub_w=10, noise_w=1, clock_w=1)

STAGES = ["accepted", "connected", "sub_types", "sub_all", "paused", "logger"]
WAYS = ["disconnect", "fin", "rst", "midframe", "refused", "wfault", "vanish"]
MID_KINDS = ["data", "subscribe", "disconnect", "connect_v2", "data_big"]
T1, T2 = 1000, 1001


class DepartureRun(PubSubRun):
    def __init__(self, choices, forced=None):
        super().__init__(choices, "C07")
        self.forced = forced
        self.victims = []

    # -- building blocks -----------------------------------------------------------
    def make_victim(self, stage, vid, name):
        a = self.new_actor(f"v{len(self.victims)}")
        a.open()
        a.stage = stage
        a.vid = vid
        a.vname = name
        self.victims.append(a)
        if stage == "accepted":
            return a
        a.handshake("v2v1", req_id=vid, logger=(stage == "logger"), name=name, pid=4000 + len(self.victims))
        if stage in ("sub_types", "paused", "logger"):
            a.subscribe(T1)
            a.subscribe(T2)
        if stage == "sub_all":
            a.subscribe(ALL)
        if stage == "paused":
            a.pause(T2)
        return a

    def depart(self, a, way, k=None, kind=None, fkind="rst"):
        ch = self.ch
        if way == "disconnect":
            if a.stage == "accepted":
                a.send(C.MT_DISCONNECT, src=0)
            else:
                a.disconnect()
            if ch.flag("dep.close_after", 1, 2):
                a.leave("fin")
            self.t(f"{a.name}[{a.stage}] DISCONNECT")
        elif way in ("fin", "rst"):
            a.leave(way)
            self.t(f"{a.name}[{a.stage}] {way}")
        elif way == "midframe":
            kind = kind or ch.choose("dep.midkind", MID_KINDS)
            if kind == "data":
                raw = a.frame(T1, payload_for(1, 40))
            elif kind == "data_big":
                raw = a.frame(T1, payload_for(2, 3000))
            elif kind == "subscribe":
                raw = a.frame(C.MT_SUBSCRIBE, C.pack_sub(T1))
            elif kind == "disconnect":
                raw = a.frame(C.MT_DISCONNECT)
            else:
                raw = a.frame(C.MT_CONNECT_V2, C.pack_connect_v2(0, 0, 0, a.vid, 1, a.vname), src=a.vid)
            if k is None:
                k = 1 + ch.pick("dep.k", len(raw) - 1)
            k = max(1, min(k, len(raw) - 1))
            a.send_raw(raw[:k])
            # the frame was never completed: forget it as a 'sent' message
            self.w.sent_by_tag.pop(a.sent[-1].tag, None)
            fk = ch.choose("dep.midway", ["fin", "rst"])
            a.leave(fk)
            self.res.enumerated.setdefault("midframe", set()).add(f"{kind}@{k}")
            self.t(f"{a.name}[{a.stage}] dies after {k}/{len(raw)} bytes of a {kind} frame ({fk})")
        elif way == "refused":
            # a second connection asking for the (unique) identity of a live module is refused
            inc = self.make_victim("connected", 40 + len(self.victims), b"incumbent%d" % len(self.victims))
            self.victims.remove(inc)
            inc.protected = True
            self.w.quiesce()
            r = self.new_actor(f"r{len(self.actors)}")
            r.open()
            r.stage = "refused"
            how = ch.choose("dep.refuse", ["dup_id", "bad_id", "dup_name"])
            rlog = ch.flag("dep.refuse_logger", 1, 3)
            rproto = ch.choose("dep.refuse_proto", ["v2v1", "v2v1", "v1"]) if how != "dup_name" else "v2v1"
            if how == "dup_id":
                r.handshake(rproto, req_id=inc.req_id, name=b"other", logger=rlog)
            elif how == "bad_id":
                r.handshake(rproto, req_id=ch.choose("dep.badid", [101, 200, -1, 150]), name=b"other", logger=rlog)
            else:
                r.handshake("v2v1", req_id=60, name=inc.mname, logger=rlog)
            self.refused = (r, inc)
            self.t(f"{r.name} asks for a refused identity ({how}); incumbent {inc.name} id={inc.req_id}")
        elif way == "vanish":
            # a newcomer sends its connection request and is gone before the manager can acknowledge it
            x = self.new_actor(f"x{len(self.actors)}")
            x.open()
            x.stage = "vanished"
            x.handshake(ch.choose("dep.vproto", ["v2v1", "v1", "v2"]), req_id=ch.choose("dep.vid", [33, 33, 0]),
                        logger=ch.flag("dep.vlogger", 1, 4), name=b"")
            x.leave(ch.choose("dep.vway", ["rst", "fin"]))
            self.t(f"{x.name} asks to connect and is gone before the acknowledgement")
            a.leave("fin")
        elif way == "wfault":
            ms = a.sock.peer
            if k is None:
                k = ch.weighted("dep.wk", [(2, 0), (3, "hdr"), (3, "any")])
                if k == "hdr":
                    k = 1 + ch.pick("dep.wkh", self.w.net.hs)
                elif k == "any":
                    k = ch.weighted("dep.wka_kind", [(6, "low"), (1, 1000), (1, 1983), (1, 1984), (1, 1985), (1, 5000),
                                                     (1, 20855), (1, 20856)])
                    if k == "low":
                        k = ch.pick("dep.wka", 200)
            ms.fault_after = k
            ms.fault_kind = fkind
            self.res.stats["armed_write_fault"] += 1
            self.res.enumerated.setdefault("wfault", set()).add(f"{a.stage}@{k}")
            self.t(f"{a.name}[{a.stage}] will die after {k} more bytes written to it ({fkind})")

    def pool_scenario(self):
        """every dynamic id is held; one holder leaves; its id must be available to the next newcomer at once"""
        ch = self.ch
        w = self.w
        made = []
        for i in range(101):
            a = self.new_actor(f"dyn{i}")
            a.protected = True
            a.open()
            a.handshake("v2v1", req_id=0, name=b"")
            made.append(a)
            w.quiesce()
        held = [a for a in made if a.alive and not a.sock.peer.closed]
        if len(held) < 50:
            return
        which = ch.choose("dep.poolwho", ["last", "first", "middle"])
        gone = {"last": held[-1], "first": held[0], "middle": held[len(held) // 2]}[which]
        way = ch.choose("dep.poolway", ["fin", "rst", "disconnect"])
        if way == "disconnect":
            gone.disconnect()
            gone.leave("fin")
        else:
            gone.leave(way)
        w.quiesce()
        self.t(f"dynamic id pool is full; the {which} holder leaves ({way}); a newcomer asks for a dynamic id")
        n = self.new_actor("dyn_new")
        n.protected = True
        n.open()
        n.handshake("v2v1", req_id=0, name=b"")
        w.quiesce()
        self.pool_newcomer = n
        self.res.probes["pool_full_reuse"] += 1

    def publish(self, p, t, dest=0, n=None):
        n = self.ch.pick("dep.plen", 50) if n is None else n
        raw = p.frame(t, payload_for(self.w.tag_counter + 1, n), dest_mod=dest)
        p.send_raw(raw)
        self.t(f"{p.name} publish type={t} dest={dest} n={n}")

    # -- run -------------------------------------------------------------------------
    def run(self) -> RunResult:
        res = self.res
        try:
            self.setup()
            self.scenario()
            self.finish()
            self.oracles()
        except ManagerCrashed as e:
            res.crash = e.signature()
            res.crash_detail = str(e)
            self.t(f"MANAGER CRASHED: {e}")
        finally:
            self.collect()
            self.w.teardown()
        return res

    def setup(self):
        super().setup()
        w = self.w
        # in a quarter of the runs a write to a reset connection fails with ECONNABORTED (see SimNet.abort_errno)
        w.net.abort_errno = self.ch.flag("cfg.abort_errno", 1, 4)
        if w.net.abort_errno:
            self.res.probes["aborted_errno_runs"] += 1
        if self.monitor is None:
            mon = self.new_actor("mon")
            mon.open()
            mon.handshake("v2v1", req_id=90, logger=True, name=b"monitor")
            mon.subscribe(ALL)
            self.monitor = mon
            self.t("monitor connects id=90 logger sub ALL")
        self.s1 = self.new_actor("S1")
        self.s1.open()
        self.s1.handshake("v2v1", req_id=81, name=b"s1")
        self.s1.subscribe(T1)
        self.s1.subscribe(C.MT_CLIENT_CLOSED)
        self.s2 = self.new_actor("S2")
        self.s2.open()
        self.s2.handshake("v1", req_id=82)
        self.s2.subscribe(ALL)
        self.p = self.new_actor("P")
        self.p.open()
        self.p.handshake("v2v1", req_id=83, name=b"p")
        self.p.subscribe(T2)
        self.universe = [T1, T2]
        w.quiesce()
        self.refused = None

    def scenario(self):
        ch = self.ch
        f = self.forced or {}
        stage = f.get("stage") or ch.choose("dep.stage", STAGES)
        way = f.get("way") or ch.choose("dep.way", WAYS)
        second = f.get("second")
        if second is None:
            second = ch.weighted("dep.second", [(3, "none"), (2, "fin"), (2, "wfault"), (1, "rst"), (1, "disconnect")])
        self.res.enumerated.setdefault("stage_way", set()).add(f"{stage}/{way}/{second}")
        hist = f.get("history") or (ch.choose("dep.history", [300, 1100]) if ch.flag("dep.long_history", 1, 40) else 0)
        if hist:
            # the manager has a long life behind it: many hundreds of clients have come and gone already
            self.w.quiesce_limit = 10 ** 5
            for i in range(hist):
                x = Actor(self.w, "old")
                x.open()
                if i % 3 == 0:
                    x.handshake("v2v1", req_id=0, name=b"")
                    self.w.quiesce()
                x.leave("fin" if i % 2 else "rst")
                if i % 16 == 15:
                    self.w.quiesce()
            self.w.quiesce()
            self.res.probes["long_manager_history"] += 1
            self.t(f"{hist} clients have come and gone before")
        vname = ch.weighted("dep.vname", [(6, b"victim"), (1, b"caf\xc3\xa9"), (1, b"\xff\xfe"), (1, b"v[/]\\"),
                                          (2, b"abcdefghijklmnopqrstuvwxyz012345"), (1, b"a name with blanks ")])
        v = self.make_victim(stage, 30, vname)
        v2 = None
        if second != "none":
            st2 = ch.choose("dep.stage2", ["sub_types", "sub_all", "logger", "connected"])
            v2 = self.make_victim(st2, 31, b"victim2")
        # some ordinary traffic before
        for _ in range(ch.pick("dep.pre", 4)):
            self.publish(self.p, ch.choose("dep.pt", [T1, T2]))
        if ch.flag("dep.settle", 3, 4):
            self.w.quiesce()
        else:
            self.step_some()
        # the departure(s), in the same instant
        self.depart(v, way, k=f.get("k"), kind=f.get("kind"), fkind=f.get("fkind", "rst"))
        if v2 is not None:
            self.depart(v2, second)
        # traffic that meets the departure: the delivery that discovers a write-side failure
        n = 1 + ch.pick("dep.during", 4)
        for i in range(n):
            self.publish(self.p, ch.choose("dep.pt2", [T1, T2, T1]),
                         dest=ch.weighted("dep.dest", [(5, 0), (1, 30), (1, 81)]))
            if ch.flag("dep.step", 1, 3):
                self.step_some()
        # a few random pubsub operations on top (other actors come and go)
        for _ in range(ch.pick("dep.extra", 6)):
            self.one_op()
            self.step_some()
        self.w.quiesce()
        for a in self.actors:
            if a.tail:
                a.flush_tail()
        self.w.quiesce()
        # write-side victims are only discovered by a delivery: make sure one happens
        for a in self.victims:
            if a.sock.peer.fault_after is not None and a.stage in ("sub_types", "sub_all", "paused", "logger"):
                self.publish(self.p, T1)
        self.w.quiesce()
        # immediate reuse of id and name of every victim the manager has noticed
        closed = {c for (_s, c) in self.w.net.closes}
        self.reconnects = []
        for a in self.victims:
            if a.conn in closed and a.stage != "accepted":
                r = self.new_actor(f"re_{a.name}")
                r.open()
                r.handshake("v2v1", req_id=a.vid, logger=(a.stage == "logger"), name=a.vname)
                r.subscribe(T1)
                self.reconnects.append((r, a))
                self.t(f"{r.name} reconnects with id={a.vid} name={a.vname!r}")
        self.w.quiesce()
        for _ in range(1 + ch.pick("dep.post", 3)):
            self.publish(self.p, T1, dest=ch.weighted("dep.dest2", [(3, 0), (2, 30)]))
        if ch.flag("dep.pool", 1, 25) and not self.forced:
            self.pool_scenario()
        # a newcomer asking for a dynamic id afterwards must get a sound one
        dp = self.new_actor("dynprobe")
        dp.protected = True
        dp.open()
        dp.handshake("v2v1", req_id=0, name=b"")
        self.w.quiesce()
        self.dynprobe = dp
        if self.refused:
            r, inc = self.refused
            # the incumbent must be undisturbed: a directed probe reaches it
            inc.subscribe(T2)
            self.w.quiesce()
            self.publish(self.p, T2, dest=inc.req_id)

    # -- oracles ----------------------------------------------------------------------
    def oracles(self):
        w = self.w
        res = self.res
        net = w.net
        model = PubSubModel(net)
        model.run()
        self.model = model
        res.model_states = set(model.states_seen)
        for an in model.anomalies:
            res.add("C07", "model_anomaly", an)
        by_conn = {a.conn: a for a in self.actors if a.sock is not None}
        self.oracle_wrongly_closed(model, by_conn)
        # (d) delivery among the remaining clients is unaffected
        self.oracle_c01(model, by_conn, prop="C07", clause_prefix="survivors.")
        # (a) no write to a connection after the manager closed it
        close_seq = {}
        for s, c in net.closes:
            close_seq.setdefault(c, s)
        for wfr in net.writes:
            cs = close_seq.get(wfr.conn)
            if cs is not None and wfr.seq > cs:
                res.add("C07", "write_after_close", f"frame type={wfr.hdr.msg_type} written to conn {wfr.conn} after its close")
                break
        for seq, idx, what in w.closed_use:
            res.add("C07", "use_after_close", f"manager used closed conn {idx} ({what})")
        # every connection the manager noticed leaving is closed by it; the noticing is prompt:
        # after quiescence no dead peer is still registered
        closed = set(close_seq)
        for a in self.actors:
            if a.sock is None or a is self.monitor:
                continue
            ms = a.sock.peer
            if not a.alive and ms.accepted and a.conn not in closed:
                if ms.rx_fin == 2 or ms.rx_rst == 2 or a.left in ("fin", "rst", "lost"):
                    res.add("C07", "not_noticed", f"{a.name} (conn {a.conn}) left by {a.left} but the manager never closed it")
        # (b) exactly one CLIENT_CLOSED per departed connection, describing it
        mon = self.monitor
        frames, _ = mon.received()
        notices = Counter()
        desc = {}
        for h, p in frames:
            if h.msg_type == C.MT_CLIENT_CLOSED and h.src_mod_id == 0 and h.send_time < TAG_BASE and len(p) >= 80:
                ci = C.unpack_client_info(p)
                notices[ci.port] += 1
                desc[ci.port] = ci
        mon_since = model.conns[mon.conn].connect_seq if mon.conn in model.conns else None
        for conn, m in model.conns.items():
            if conn == mon.conn:
                continue
            n = notices.get(m.port, 0)
            if conn in closed:
                if mon_since is None or close_seq[conn] < mon_since:
                    continue
                if n != 1:
                    res.add("C07", "client_closed_count",
                            f"conn {conn} (port {m.port}, id {m.mod_id}, removed by {m.removed_how}) was closed by the "
                            f"manager and {n} CLIENT_CLOSED notices describing it reached the logger monitor")
                else:
                    ci = desc[m.port]
                    res.probes["client_closed_checked"] += 1
                    want_id = m.mod_id
                    if want_id != -1 and (ci.mod_id != want_id or ci.name != m.name[:32]):
                        res.add("C07", "client_closed_fields",
                                f"CLIENT_CLOSED for conn {conn} says id={ci.mod_id} name={ci.name!r}, "
                                f"expected id={want_id} name={m.name!r}")
                    if want_id != -1 and bool(ci.is_logger) != bool(m.is_logger):
                        res.add("C07", "client_closed_fields", f"CLIENT_CLOSED for conn {conn} is_logger={ci.is_logger}")
            elif n:
                res.add("C07", "client_closed_spurious", f"{n} CLIENT_CLOSED for conn {conn} which the manager never closed")
        # (c) immediate reconnect with the same id and name is acknowledged
        for r, a in self.reconnects:
            fr, _ = r.received()
            acks = [h for h, _p in fr if h.msg_type == C.MT_ACKNOWLEDGE and h.src_mod_id == 0]
            ctl = [c for c in model.controls if c.conn == r.conn and c.kind == "connect"]
            if ctl and ctl[0].decision == MUST_ACCEPT:
                res.probes["reconnect_checked"] += 1
                if not acks:
                    res.add("C07", "reuse_refused", f"{r.name} reconnecting with id={a.vid} name={a.vname!r} right after "
                                                    f"{a.name} left ({a.stage}) was not acknowledged "
                                                    f"(closed={r.sock.peer.closed})")
        dp = getattr(self, "dynprobe", None)
        if dp is not None and dp.alive:
            fr, _ = dp.received()
            ids = [h.dest_mod_id for h, _p in fr if h.msg_type == C.MT_ACKNOWLEDGE and h.src_mod_id == 0]
            if ids:
                res.probes["dynamic_probe_checked"] += 1
                if not (C.DYN_MOD_ID_START <= ids[0] < C.MAX_MODULES):
                    res.add("C07", "dynamic_id_after_departure", f"after the departures a newcomer asking for a dynamic id "
                                                                 f"was given {ids[0]}", sig="dynamic_id_after_departure")
                held = [m.mod_id for m in model.conns.values() if m.alive and m.connected and m.conn != dp.conn]
                if ids[0] in held:
                    res.add("C07", "dynamic_id_after_departure", f"the dynamic id {ids[0]} given after the departures is "
                                                                 f"held by a live module", sig="dynamic_id_in_use_after_departure")
        n = getattr(self, "pool_newcomer", None)
        if n is not None:
            ctl = [c for c in model.controls if c.conn == n.conn and c.kind == "connect"]
            fr, _ = n.received()
            acks = [h for h, _p in fr if h.msg_type == C.MT_ACKNOWLEDGE and h.src_mod_id == 0]
            if ctl and ctl[0].decision == MUST_ACCEPT and not acks:
                res.add("C07", "reuse_refused", "the dynamic id pool was full, one holder left, and the next request for a "
                                                "dynamic id was refused although that id is free", sig="reuse_refused_dynamic")
        # refusal at connect must not disturb the incumbent
        if self.refused:
            r, inc = self.refused
            if r.conn in model.conns:
                res.probes["refusal_checked"] += 1
                if inc.conn in closed:
                    res.add("C07", "incumbent_disturbed", f"refusing {r.name} closed the incumbent {inc.name}")
        for a in self.victims:
            res.probes[f"victim_{a.stage}"] += 1


def run(choices, forced=None) -> RunResult:
    return DepartureRun(choices, forced).run()


def det_cases(tier):
    cases = []
    for stage in STAGES:
        for way in ("disconnect", "fin", "rst", "refused"):
            for second in ("none", "fin", "wfault", "rst", "disconnect"):
                for rep in range(3):
                    cases.append(dict(stage=stage, way=way, second=second, rep=rep))
        # death at every byte offset of an incoming frame
        for kind, ln in (("data", 88), ("subscribe", 52), ("disconnect", 48), ("connect_v2", 92)):
            for k in range(1, ln):
                cases.append(dict(stage=stage, way="midframe", kind=kind, k=k, second="none"))
        for k in (1, 47, 48, 49, 1000, 3047):
            cases.append(dict(stage=stage, way="midframe", kind="data_big", k=k, second="fin"))
        # write-side failure at every byte offset of an outgoing frame (header + small payload)
        if stage != "accepted" and stage != "connected":
            for k in range(0, 100):
                for fk in ("rst", "fin"):
                    cases.append(dict(stage=stage, way="wfault", k=k, fkind=fk,
                                      second=("wfault" if k % 3 == 0 else "none")))
    if tier == "quick":
        cases = cases[::17]
    # a departure and an immediate reuse of id and name after a long manager life
    for way in ("fin", "disconnect"):
        cases.append(dict(stage="sub_types", way=way, second="none", rep=0, history=1100))
    return cases
