"""Common result types for harness runs."""
from __future__ import annotations

from collections import Counter
from typing import Dict, List, Optional


class Violation:
    __slots__ = ("prop", "clause", "detail", "sig")

    def __init__(self, prop: str, clause: str, detail: str, sig: Optional[str] = None):
        self.prop = prop
        self.clause = clause
        self.detail = detail
        self.sig = sig or clause     # narrow signature used for known-findings matching

    def as_dict(self):
        return {"property": self.prop, "clause": self.clause, "detail": self.detail,
                "sig": self.sig}

    def __repr__(self):
        return f"<Violation {self.prop} {self.clause}: {self.detail[:200]}>"


class RunResult:
    def __init__(self):
        self.violations: List[Violation] = []
        self.stats: Counter = Counter()       # fault kinds fired
        self.probes: Counter = Counter()      # rare-branch probes hit
        self.digest: str = ""
        self.sim_seconds: float = 0.0
        self.trace: List[str] = []            # human-readable op/fault trace
        self.nontrivial = False
        self.round_sigs = set()
        self.model_states = set()
        self.config: Dict = {}
        self.crash: Optional[str] = None      # manager crash signature, if any
        self.n_choices = 0
        self.enumerated: Dict[str, set] = {}

    def add(self, prop, clause, detail, sig=None):
        self.violations.append(Violation(prop, clause, detail, sig))
