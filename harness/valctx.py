"""Harness `valctx` (part of the C09 check): validation stays in force around the package's own API.

C09's last sentence: validation is in force whenever execution is not inside an explicit disable block.  The
package itself uses such blocks internally (the client while it fills in headers, the manager throughout its loop);
none of that may leak into the caller's code.  One run in a few of the C09 check connects a real pyrtma.Client to
the real manager and probes, with an out-of-domain assignment, that validation is in force before, inside the body
of, and after every public context manager and after the ordinary API calls -- also when a body is left through an
exception.
"""
from __future__ import annotations

import contextvars
import logging

from sim.world import World, ManagerCrashed
from sim.actors import Actor
from sim import codec as C
from .base import RunResult


class Boom(Exception):
    pass


class ValCtxRun:
    def __init__(self, choices):
        self.ch = choices
        self.res = RunResult()

    def t(self, s):
        self.res.trace.append(s)

    def probe(self, where):
        msg = self.msg
        keep = msg._i8
        try:
            msg.i8 = 1000
        except Exception:
            self.res.probes["probe_in_force"] += 1
            return
        msg._i8 = keep
        self.res.add("C09", "validation_off_outside_block",
                     f"{where}: not inside any disable block, but i8=1000 was accepted", sig="validation_off_outside_block:api")

    def body(self):
        import pyrtma
        from pyrtma.exceptions import ClientError, RTMAMessageError
        from harness.validation import classes
        ch = self.ch
        w = self.w
        classes()
        from harness.validation import _CLS
        self.msg = _CLS["VT"]()
        self.probe("before anything")
        c = pyrtma.Client(module_id=11, timecode=w.timecode)
        self.client = c
        w.register_client_logger(c)
        self.probe("after Client()")
        c.connect(f"127.0.0.1:{w.PORT}")
        self.probe("after connect()")
        for i in range(2 + ch.pick("n.ops", 8)):
            k = ch.weighted("op", [(3, "sub_ctx"), (3, "pause_ctx"), (2, "client_ctx"), (2, "subscribe"), (2, "send"),
                                   (2, "read"), (1, "pause_all"), (1, "discard")])
            boom = ch.flag("boom", 1, 3)
            self.t(f"{k}{' (body raises)' if boom else ''}")
            try:
                if k == "sub_ctx":
                    with c.subscription_context([1000, 1001]):
                        self.probe("inside the body of subscription_context")
                        if boom:
                            raise Boom()
                    self.probe("after subscription_context")
                elif k == "pause_ctx":
                    c.subscribe([1000])
                    with c.paused_subscription_context([1000]):
                        self.probe("inside the body of paused_subscription_context")
                        if boom:
                            raise Boom()
                    self.probe("after paused_subscription_context")
                elif k == "client_ctx":
                    with pyrtma.client_context(module_id=0, server_name=f"127.0.0.1:{w.PORT}", msg_list=[1000],
                                               timecode=w.timecode) as c2:
                        w.register_client_logger(c2)
                        self.probe("inside the body of client_context")
                        if boom:
                            raise Boom()
                    self.probe("after client_context")
                elif k == "subscribe":
                    c.subscribe([1002])
                    self.probe("after subscribe()")
                    c.unsubscribe([1002])
                    self.probe("after unsubscribe()")
                elif k == "send":
                    c.send_signal(1003)
                    self.probe("after send_signal()")
                    import pyrtma.core_defs as cd
                    d = cd.MDF_MODULE_READY()
                    d.pid = 1
                    c.send_message(d)
                    self.probe("after send_message()")
                elif k == "read":
                    self.pub.send_raw(self.pub.frame(1000, b""))
                    w.quiesce()
                    try:
                        c.read_message(timeout=0)
                    except (ClientError, RTMAMessageError):
                        pass
                    self.probe("after read_message()")
                elif k == "pause_all":
                    c.pause_all_subscriptions()
                    self.probe("after pause_all_subscriptions()")
                    c.resume_all_subscriptions()
                    self.probe("after resume_all_subscriptions()")
                elif k == "discard":
                    try:
                        c.discard_messages(timeout=0.01)
                    except (ClientError, RTMAMessageError):
                        pass
                    self.probe("after discard_messages()")
                else:
                    try:
                        c.discard_messages(timeout=0.01)
                    except (ClientError, RTMAMessageError):
                        pass
                    self.probe("after discard_messages()")
            except Boom:
                self.probe(f"after {k} was left through an exception")
            w.quiesce()
        c.disconnect()
        self.probe("after disconnect()")
        self.res.probes["api_context_runs"] += 1

    def run(self) -> RunResult:
        ch = self.ch
        res = self.res
        timecode = bool(ch.pick("cfg.timecode", 2))
        self.client = None
        self.w = w = World(ch, timecode=timecode, log_level=logging.ERROR, send_msg_timing=True, p_notwritable=(0, 1))
        res.config = dict(harness="valctx", timecode=timecode)
        w.patch()
        try:
            w.start_manager()
            self.pub = Actor(w, "P")
            self.pub.open()
            self.pub.handshake("v2v1", req_id=20, name=b"")
            w.quiesce()
            # (a fresh context: what an earlier run of this worker left in the main thread's context does not count)
            import warnings
            with warnings.catch_warnings():
                warnings.simplefilter("ignore")
                contextvars.Context().run(self.body)
        except ManagerCrashed as e:
            res.crash = e.signature()
            res.crash_detail = str(e)
        finally:
            if self.client is not None:
                self.client._connected = False
            res.stats.update({k: v for k, v in w.net.stats.items() if v})
            res.digest = w.digest()
            res.sim_seconds = w.clock.advanced
            res.n_choices = len(ch.trace)
            res.nontrivial = True
            w.teardown()
        return res


def run(choices) -> RunResult:
    return ValCtxRun(choices).run()
