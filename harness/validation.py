"""Harness `validation` (C09): field validation is sound, complete and atomic, and is in force whenever
execution is not inside an explicit disable block -- per task, after any nesting and exceptional exits.

Tasks (baton-scheduled real threads, switching at every operation boundary) run generated programs of
nested `with disable_message_validation(...)` blocks left normally or by an exception, and assignments
whose arguments come from a boundary table over every validator kind."""
from __future__ import annotations

import ctypes
import hashlib
import math
import struct

from sim.net import Clock, SimStall
from sim.simthreading import Sched
from .base import RunResult

ACCEPT, REFUSE, DONTCARE = "accept", "refuse", "dontcare"
_CLS = {}


def classes():
    """purpose-built message classes with every validator kind (built once per process)"""
    if _CLS:
        return _CLS
    import pyrtma
    from pyrtma.message_base import MessageBase, MessageMeta
    from pyrtma.validators import (Int8, Int16, Int32, Int64, Uint8, Uint16, Uint32, Uint64, Float, Double,
                                   Char, String, Byte, ByteArray, IntArray, FloatArray, Struct, StructArray)

    class VT_INNER(MessageBase, metaclass=MessageMeta):
        a: Int16 = Int16()
        b: Double = Double()

    class VT_OTHER(MessageBase, metaclass=MessageMeta):
        x: Int32 = Int32()
        y: Int32 = Int32()

    def _twin_class():
        # a distinct class with the same name and the same layout (as after importing a definitions file twice)
        class VT_INNER(MessageBase, metaclass=MessageMeta):
            a: Int16 = Int16()
            b: Double = Double()
        return VT_INNER
    VT_INNER_TWIN = _twin_class()

    class MDF_VT(pyrtma.MessageData, metaclass=MessageMeta):
        type_id = 31999
        type_name = "VT"
        type_hash = 0x1234
        type_size = -1
        type_source = ""
        type_def = ""
        i8: Int8 = Int8()
        u8: Uint8 = Uint8()
        i16: Int16 = Int16()
        u16: Uint16 = Uint16()
        i32: Int32 = Int32()
        u32: Uint32 = Uint32()
        i64: Int64 = Int64()
        u64: Uint64 = Uint64()
        f32: Float = Float()
        f64: Double = Double()
        ch: Char = Char()
        s: String = String(8)
        by: Byte = Byte()
        ba: ByteArray = ByteArray(6)
        ia: IntArray = IntArray(Int16, 5)
        ua: IntArray = IntArray(Uint8, 4)
        la: IntArray = IntArray(Int64, 3)
        ia2: IntArray = IntArray(Int16, 5)      # a second array of the same kind in the same message
        fa: FloatArray = FloatArray(Float, 5)
        da: FloatArray = FloatArray(Double, 4)
        st: Struct = Struct(VT_INNER)
        sa: StructArray = StructArray(VT_INNER, 3)

    class MDF_VT2(pyrtma.MessageData, metaclass=MessageMeta):
        type_id = 31998
        type_name = "VT2"
        type_hash = 0x1235
        type_size = -1
        type_source = ""
        type_def = ""
        ia: IntArray = IntArray(Int16, 5)
        ia4: IntArray = IntArray(Int16, 4)
        ib: IntArray = IntArray(Int32, 5)
        fa: FloatArray = FloatArray(Float, 5)
        sa: StructArray = StructArray(VT_INNER, 3)
        so: StructArray = StructArray(VT_OTHER, 3)
        ba: ByteArray = ByteArray(6)
        # same element types and lengths as MDF_VT's ia / ua / fa / da / sa / ba under other names
        ic: IntArray = IntArray(Int16, 5)
        uc: IntArray = IntArray(Uint8, 4)
        fc: FloatArray = FloatArray(Float, 5)
        dc: FloatArray = FloatArray(Double, 4)
        sc: StructArray = StructArray(VT_INNER, 3)
        bc: ByteArray = ByteArray(6)
        # a byte array as long as MDF_VT.ua and an unsigned 8-bit array as long as MDF_VT.ba (same element C type)
        b4: ByteArray = ByteArray(4)
        u6: IntArray = IntArray(Uint8, 6)

    _CLS.update(INNER=VT_INNER, OTHER=VT_OTHER, VT=MDF_VT, VT2=MDF_VT2, INNER_TWIN=VT_INNER_TWIN)
    return _CLS


INTS = {"i8": (-2 ** 7, 2 ** 7 - 1), "u8": (0, 2 ** 8 - 1), "i16": (-2 ** 15, 2 ** 15 - 1), "u16": (0, 2 ** 16 - 1),
        "i32": (-2 ** 31, 2 ** 31 - 1), "u32": (0, 2 ** 32 - 1), "i64": (-2 ** 63, 2 ** 63 - 1), "u64": (0, 2 ** 64 - 1)}
FLT_MAX = 3.4028234663852886e38
WRONG_TYPES = [None, "7", b"7", [1], (1,), {"a": 1}, 1.5, 2.0, complex(1, 0), object]
FLOAT_VALUES = [0.0, -0.0, 1.5, -2.25, 1e-45, FLT_MAX, -FLT_MAX, 3.4028235677973366e38, 3.5e38, -3.5e38, 1e39, 1e308,
                1.7976931348623157e308, float("inf"), float("-inf"), float("nan"), 10 ** 400, -(10 ** 400), 7, -3, 2 ** 63,
                16777217, 0.1, 2 ** 128, -(2 ** 128), 10 ** 39, 2 ** 200, 2 ** 128 - 2 ** 103, 2 ** 128 - 2 ** 104, 2 ** 1023,
                2 ** 1024 - 2 ** 970]


def f32(v):
    return struct.unpack("<f", struct.pack("<f", v))[0]


def same_float(a, b):
    if isinstance(a, float) and isinstance(b, float) and math.isnan(a) and math.isnan(b):
        return True
    return a == b and (math.copysign(1.0, a) == math.copysign(1.0, b) if a == 0 else True)


# ---------------------------------------------------------------------- reference domain
def int_domain(v, lo, hi):
    if type(v) is bool:
        return DONTCARE, None
    if isinstance(v, int):
        return (ACCEPT, v) if lo <= v <= hi else (REFUSE, None)
    return REFUSE, None


def float_domain(v, single):
    if type(v) is bool:
        return DONTCARE, None
    if not isinstance(v, (int, float)):
        return REFUSE, None
    try:
        fv = float(v)
    except OverflowError:
        return REFUSE, None
    if math.isnan(fv):
        return DONTCARE, fv
    if math.isinf(fv):
        return REFUSE, None
    if single:
        try:
            return ACCEPT, f32(fv)
        except OverflowError:
            return REFUSE, None
    return ACCEPT, fv


def elem_domain(kind, v):
    if kind in INTS:
        return int_domain(v, *INTS[kind])
    if kind == "f32":
        return float_domain(v, True)
    if kind == "f64":
        return float_domain(v, False)
    raise KeyError(kind)


def seq_domain(kind, seq, want_len):
    """domain of a whole-array / slice assignment of a python sequence"""
    if isinstance(seq, (str, bytes, bytearray)) or not isinstance(seq, (list, tuple)):
        return REFUSE, None
    out = []
    verdict = ACCEPT
    for v in seq:
        d, rb = elem_domain(kind, v)
        if d == REFUSE:
            return REFUSE, None
        if d == DONTCARE:
            verdict = DONTCARE
        out.append(rb)
    if len(seq) != want_len:
        return REFUSE, None
    return verdict, out


ARRAYS = {"ia": ("i16", 5), "ua": ("u8", 4), "la": ("i64", 3), "fa": ("f32", 5), "da": ("f64", 4)}
SLICES = [slice(None), slice(0, 2), slice(1, 4), slice(-2, None), slice(None, None, 2), slice(4, 1, -1),
          slice(2, 2), slice(0, 99), slice(1, None, 3)]


def good_elem(kind, i=0):
    if kind in INTS:
        lo, hi = INTS[kind]
        return [lo, hi, 0, 1, hi - 1][i % 5]
    return [1.5, -2.25, 0.0, 1e10, -0.0][i % 5]


def bad_elems(kind):
    if kind in INTS:
        lo, hi = INTS[kind]
        return [lo - 1, hi + 1, 10 ** 30, 1.0, "1", None]
    if kind == "f32":
        return [float("inf"), float("-inf"), 1e39, -1e39, 3.5e38, 10 ** 400, "1.0", None]
    return [float("inf"), float("-inf"), 10 ** 400, "1.0", None]


class Case:
    __slots__ = ("field", "op", "key", "value", "verdict", "readback", "label")

    def __init__(self, field, op, key, value, verdict, readback, label):
        self.field, self.op, self.key, self.value = field, op, key, value
        self.verdict, self.readback, self.label = verdict, readback, label


def build_table():
    """the boundary table: every validator kind x boundary values / wrong types / positions / slice shapes"""
    C = classes()
    INNER, OTHER, VT, VT2 = C["INNER"], C["OTHER"], C["VT"], C["VT2"]
    T = []

    def add(field, op, key, value, verdict, readback, label):
        T.append(Case(field, op, key, value, verdict, readback, label))

    # scalar ints
    for name, (lo, hi) in INTS.items():
        for v in [lo - 1, lo, lo + 1, -1, 0, 1, hi - 1, hi, hi + 1, 2 ** 64, -(2 ** 64), 10 ** 400, True, False] + WRONG_TYPES + \
                [float("nan"), float("inf")]:
            d, rb = int_domain(v, lo, hi)
            add(name, "set", None, v, d, rb, f"{name}={v!r}"[:60])
    # scalar floats
    for name, single in (("f32", True), ("f64", False)):
        for v in FLOAT_VALUES + [True, None, "1.0", b"1", [1.0], complex(1, 1)]:
            d, rb = float_domain(v, single)
            add(name, "set", None, v, d, rb, f"{name}={v!r}"[:60])
    # char / string
    for v, d, rb in [("a", ACCEPT, "a"), ("", ACCEPT, ""), ("ab", REFUSE, None), ("\xe9", REFUSE, None), ("€", REFUSE, None),
                     ("\x7f", ACCEPT, "\x7f"), (b"a", REFUSE, None), (65, REFUSE, None), (None, REFUSE, None), (["a"], REFUSE, None)]:
        add("ch", "set", None, v, d, rb, f"ch={v!r}")
    for v, d, rb in [("", ACCEPT, ""), ("abc", ACCEPT, "abc"), ("1234567", ACCEPT, "1234567"), ("12345678", REFUSE, None),
                     ("123456789", REFUSE, None), ("caf\xe9", REFUSE, None), ("€x", REFUSE, None), ("ab\x00cd", ACCEPT, "ab"),
                     ("\x00abc", ACCEPT, ""), ("a\tb\n", ACCEPT, "a\tb\n"), (b"abc", REFUSE, None), (123, REFUSE, None),
                     (None, REFUSE, None), (["a", "b"], REFUSE, None), (1.5, REFUSE, None), ("x" * 4000, REFUSE, None)]:
        add("s", "set", None, v, d, rb, f"s={v!r}"[:50])
    # byte
    for v, d, rb in [(0, ACCEPT, 0), (255, ACCEPT, 255), (256, REFUSE, None), (-1, REFUSE, None), (b"\x07", ACCEPT, 7),
                     (bytearray(b"\xff"), ACCEPT, 255), (b"", REFUSE, None), (b"ab", REFUSE, None), ("a", REFUSE, None),
                     (1.0, REFUSE, None), (None, REFUSE, None), ([1], REFUSE, None), (True, DONTCARE, None), (10 ** 30, REFUSE, None)]:
        add("by", "set", None, v, d, rb, f"by={v!r}")
    # byte array
    for v, d, rb in [(b"abcdef", ACCEPT, b"abcdef"), (bytearray(b"\x00\xff\x01\x02\x03\x04"), ACCEPT, b"\x00\xff\x01\x02\x03\x04"),
                     ([1, 2, 3, 4, 5, 255], ACCEPT, bytes([1, 2, 3, 4, 5, 255])), (b"abc", REFUSE, None), (b"abcdefg", REFUSE, None),
                     ([1, 2, 3, 4, 5, 256], REFUSE, None), ([1, 2, -1, 4, 5, 6], REFUSE, None), ([1, 2, 3], REFUSE, None),
                     ([1, 2, 3, 4, 5, 6, 7], REFUSE, None), (["a"] * 6, REFUSE, None), ("abcdef", REFUSE, None), (None, REFUSE, None),
                     (7, REFUSE, None), ([1, 2, 3, 4, 5, 2.0], REFUSE, None), ([1, 2, 3, 4, 5, None], REFUSE, None),
                     (b"", REFUSE, None), ([], REFUSE, None)]:
        add("ba", "set", None, v, d, rb, f"ba={v!r}"[:50])
    for i in (0, 5, -1):
        for v, d, rb in [(9, ACCEPT, 9), (255, ACCEPT, 255), (256, REFUSE, None), (-1, REFUSE, None), (b"\x05", ACCEPT, 5),
                         (b"ab", REFUSE, None), ("a", REFUSE, None), (None, REFUSE, None), (1.5, REFUSE, None),
                         (b"", REFUSE, None), (bytearray(), REFUSE, None), (b"abcdef", REFUSE, None), (bytearray(b"\x01\x02"), REFUSE, None)]:
            add("ba", "item", i, v, d, rb, f"ba[{i}]={v!r}")
    for v in (9,):
        add("ba", "item", 6, v, REFUSE, None, "ba[6]=9")
        add("ba", "item", -7, v, REFUSE, None, "ba[-7]=9")
    for sl, v, d, rb in [(slice(1, 3), b"xy", ACCEPT, b"xy"), (slice(1, 3), b"xyz", REFUSE, None), (slice(0, 6), [0] * 6, ACCEPT, bytes(6)),
                         (slice(1, 3), [1, 256], REFUSE, None), (slice(None, None, 2), b"abc", ACCEPT, b"abc"),
                         (slice(1, 3), [1, "a"], REFUSE, None), (slice(1, 3), 5, REFUSE, None)]:
        add("ba", "slice", sl, v, d, rb, f"ba[{sl.start}:{sl.stop}:{sl.step}]={v!r}"[:50])
    # numeric arrays: whole, element, slice; a single bad element at every position, also next to NaN
    for name, (kind, n) in ARRAYS.items():
        good = [good_elem(kind, i) for i in range(n)]
        d, rb = seq_domain(kind, good, n)
        add(name, "set", None, list(good), d, rb, f"{name}=good")
        add(name, "set", None, tuple(good), d, rb, f"{name}=good tuple")
        for ln in (0, 1, n - 1, n + 1, 2 * n):
            v = [good_elem(kind, i) for i in range(ln)]
            add(name, "set", None, v, REFUSE, None, f"{name}=len{ln}")
        for pos in range(n):
            for bad in bad_elems(kind):
                v = list(good)
                v[pos] = bad
                add(name, "set", None, v, REFUSE, None, f"{name}: {bad!r} at {pos}"[:60])
                if kind in ("f32", "f64"):
                    for npos in range(n):
                        if npos == pos:
                            continue
                        w = list(v)
                        w[npos] = float("nan")
                        add(name, "set", None, w, REFUSE, None, f"{name}: {bad!r} at {pos}, NaN at {npos}"[:60])
        if kind in ("f32", "f64"):
            for pos in range(n):
                v = list(good)
                v[pos] = float("nan")
                d2, rb2 = seq_domain(kind, v, n)
                add(name, "set", None, v, d2, rb2, f"{name}: NaN at {pos}")
        for v in (None, 7, "abcde"[:n], {1: 2}, [None] * n, [[1]] * n, ([1.5] * n if kind in INTS else ["1"] * n)):
            d3, rb3 = seq_domain(kind, v, n)
            add(name, "set", None, v, d3, rb3, f"{name}={v!r}"[:50])
        # bytes offered to a numeric array: a sequence of in-range ints -- statement silent
        add(name, "set", None, b"\x01" * n, DONTCARE, None, f"{name}=bytes")
        # C arrays as values (same / other width and signedness): judged like the list of their elements
        for cname, ct in (("c_int8", ctypes.c_int8), ("c_uint8", ctypes.c_uint8), ("c_int16", ctypes.c_int16),
                          ("c_uint16", ctypes.c_uint16), ("c_int32", ctypes.c_int32), ("c_uint32", ctypes.c_uint32),
                          ("c_int64", ctypes.c_int64), ("c_uint64", ctypes.c_uint64), ("c_float", ctypes.c_float),
                          ("c_double", ctypes.c_double)):
            is_f = cname in ("c_float", "c_double")
            if is_f:
                cvals = [[1.5] * n, [float("inf")] + [0.0] * (n - 1), [0.0] * (n - 1) + [1e39 if cname == "c_double" else 1.0]]
            else:
                lo_c = -(2 ** (8 * ctypes.sizeof(ct) - 1)) if cname.startswith("c_int") else 0
                hi_c = (2 ** (8 * ctypes.sizeof(ct) - 1) - 1) if cname.startswith("c_int") else 2 ** (8 * ctypes.sizeof(ct)) - 1
                cvals = [[1] * n, [hi_c] + [1] * (n - 1), [1] * (n - 1) + [lo_c], [2] * (n // 2) + [hi_c] + [3] * (n - n // 2 - 1)]
            for vals in cvals:
                vals = vals[:n]
                as_list = [ct(v).value for v in vals]
                d6, rb6 = seq_domain(kind, as_list, n)
                if (kind in ("f32", "f64")) != is_f and d6 == ACCEPT:
                    d6 = DONTCARE      # int C array into a float field (or the reverse): statement silent on acceptance
                add(name, "set", None, ("carray", cname, tuple(vals)), d6, rb6, f"{name}=({cname}*{n}){tuple(vals)!r}"[:70])
                m2 = len(range(*slice(0, 2).indices(n)))
                d7, rb7 = seq_domain(kind, as_list[:m2], m2)
                if (kind in ("f32", "f64")) != is_f and d7 == ACCEPT:
                    d7 = DONTCARE
                add(name, "slice", slice(0, 2), ("carray", cname, tuple(vals[:m2])), d7, rb7,
                    f"{name}[0:2]=({cname}*{m2}){tuple(vals[:m2])!r}"[:70])
        for i in (0, n - 1, -1, -n):
            for v in [good_elem(kind, 1)] + bad_elems(kind) + ([float("nan")] if kind in ("f32", "f64") else [True]):
                d4, rb4 = elem_domain(kind, v)
                add(name, "item", i, v, d4, rb4, f"{name}[{i}]={v!r}"[:50])
        for i in (n, -n - 1, 10 ** 6):
            add(name, "item", i, good_elem(kind, 0), REFUSE, None, f"{name}[{i}] out of bounds")
        for sl in SLICES:
            m = len(range(*sl.indices(n)))
            v = [good_elem(kind, i + 1) for i in range(m)]
            d5, rb5 = seq_domain(kind, v, m)
            add(name, "slice", sl, v, d5, rb5, f"{name}[{sl.start}:{sl.stop}:{sl.step}] good")
            add(name, "slice", sl, v + [good_elem(kind, 0)], REFUSE, None, f"{name}[{sl.start}:{sl.stop}:{sl.step}] too long")
            if m:
                add(name, "slice", sl, v[:-1], REFUSE, None, f"{name}[{sl.start}:{sl.stop}:{sl.step}] too short")
                for pos in range(m):
                    w = list(v)
                    w[pos] = bad_elems(kind)[pos % len(bad_elems(kind))]
                    add(name, "slice", sl, w, REFUSE, None, f"{name}[{sl.start}:{sl.stop}:{sl.step}] bad at {pos}"[:60])
                    if kind in ("f32", "f64") and m > 1:
                        w2 = list(w)
                        w2[(pos + 1) % m] = float("nan")
                        add(name, "slice", sl, w2, REFUSE, None, f"{name}[{sl.start}:{sl.stop}:{sl.step}] bad at {pos} next to NaN"[:70])
    # struct / struct array
    def inner(a, b):
        x = INNER()
        x.a, x.b = a, b
        return x

    add("st", "set", None, ("inner", 7, 2.5), ACCEPT, None, "st=INNER")
    for v in (("other",), None, 5, {"a": 1}, "x", (1, 2.0), [1, 2.0], ("cls_inner",), b"\x00" * 16):
        add("st", "set", None, v, REFUSE, None, f"st={v!r}")
    add("sa", "set", None, [("inner", 1, 1.0), ("inner", 2, 2.0), ("inner", 3, 3.0)], ACCEPT, None, "sa=3xINNER")
    for ln in (0, 2, 4):
        add("sa", "set", None, [("inner", i, 0.5) for i in range(ln)], REFUSE, None, f"sa=len{ln}")
    for pos in range(3):
        for bad in (("other",), None, 5, "x", {"a": 1}):
            v = [("inner", 1, 1.0), ("inner", 2, 2.0), ("inner", 3, 3.0)]
            v[pos] = bad
            add("sa", "set", None, v, REFUSE, None, f"sa: {bad!r} at {pos}")
    for i in (0, 2, -1):
        add("sa", "item", i, ("inner", 9, 9.5), ACCEPT, None, f"sa[{i}]=INNER")
        for bad in (("other",), None, 5, "x"):
            add("sa", "item", i, bad, REFUSE, None, f"sa[{i}]={bad!r}")
    add("sa", "item", 3, ("inner", 9, 9.5), REFUSE, None, "sa[3] out of bounds")
    add("sa", "slice", slice(0, 2), [("inner", 5, 5.0), ("inner", 6, 6.0)], ACCEPT, None, "sa[0:2]=2xINNER")
    add("sa", "slice", slice(0, 2), [("inner", 5, 5.0)], REFUSE, None, "sa[0:2]=1xINNER")
    add("sa", "slice", slice(0, 2), [("inner", 5, 5.0), ("other",)], REFUSE, None, "sa[0:2]=[INNER, OTHER]")
    add("sa", "slice", slice(0, 2), [None, ("inner", 5, 5.0)], REFUSE, None, "sa[0:2]=[None, INNER]")
    # a struct of another class that happens to have the same name and layout: refused like any wrong struct,
    # wherever in the sequence it stands
    add("sa", "slice", slice(0, 2), [("inner", 5, 5.0), ("inner_twin", 6, 6.0)], REFUSE, None, "sa[0:2]=[INNER, INNER']")
    add("sa", "set", None, [("inner", 1, 1.0), ("inner", 2, 2.0), ("inner_twin", 3, 3.0)], REFUSE, None, "sa=[INNER, INNER, INNER']")
    add("sa", "set", None, [("inner_twin", 1, 1.0), ("inner", 2, 2.0), ("inner", 3, 3.0)], REFUSE, None, "sa=[INNER', INNER, INNER]")
    add("sa", "item", 1, ("inner_twin", 9, 9.5), REFUSE, None, "sa[1]=INNER'")
    add("st", "set", None, ("inner_twin", 9, 9.5), REFUSE, None, "st=INNER'")
    # fields of a nested struct and of struct-array elements, reached through the accessors
    for path, label in ((("st",), "st"), (("sa", 0), "sa[0]"), (("sa", 2), "sa[2]"), (("sa", -1), "sa[-1]")):
        lo, hi = INTS["i16"]
        for v in [lo - 1, lo, hi, hi + 1, 0, 2 ** 40, 1.5, "1", None, True]:
            d8, rb8 = int_domain(v, lo, hi)
            add("st" if path[0] == "st" else "sa", "nested", path + ("a",), v, d8, rb8, f"{label}.a={v!r}")
        for v in [0.5, -0.0, 1e308, float("inf"), float("-inf"), float("nan"), 10 ** 400, 7, "x", None, [1.0]]:
            d9, rb9 = float_domain(v, False)
            add("st" if path[0] == "st" else "sa", "nested", path + ("b",), v, d9, rb9, f"{label}.b={v!r}")
    # array-from-array (bound descriptor of another message)
    add("ia", "from", None, ("VT2", "ia"), ACCEPT, None, "ia = other.ia")
    add("ia", "from", None, ("VT2", "ia4"), REFUSE, None, "ia = other.ia4 (shorter)")
    add("ia", "from", None, ("VT2", "ib"), REFUSE, None, "ia = other.ib (Int32)")
    add("ia", "from", None, ("VT2", "fa"), REFUSE, None, "ia = other.fa (floats)")
    add("fa", "from", None, ("VT2", "fa"), ACCEPT, None, "fa = other.fa")
    add("fa", "from", None, ("VT2", "ia"), REFUSE, None, "fa = other.ia")
    add("sa", "from", None, ("VT2", "sa"), ACCEPT, None, "sa = other.sa")
    add("sa", "from", None, ("VT2", "so"), REFUSE, None, "sa = other.so (other struct)")
    add("ba", "from", None, ("VT2", "ba"), ACCEPT, None, "ba = other.ba")
    add("ba", "from", None, ("VT2", "ia"), REFUSE, None, "ba = other.ia")
    # the source is a field with another name (same element type and length)
    add("ia", "from", None, ("VT2", "ic"), ACCEPT, None, "ia = other.ic")
    add("ua", "from", None, ("VT2", "uc"), ACCEPT, None, "ua = other.uc")
    add("fa", "from", None, ("VT2", "fc"), ACCEPT, None, "fa = other.fc")
    add("da", "from", None, ("VT2", "dc"), ACCEPT, None, "da = other.dc")
    add("sa", "from", None, ("VT2", "sc"), ACCEPT, None, "sa = other.sc")
    add("ba", "from", None, ("VT2", "bc"), ACCEPT, None, "ba = other.bc")
    add("ia", "from", None, ("VT", "ia"), ACCEPT, None, "ia = another message's ia")
    # the source is another field of the very same message
    add("ia", "from", None, ("SELF", "ia2"), ACCEPT, None, "ia = msg.ia2 (same message)")
    add("ia", "from", None, ("SELF", "fa"), REFUSE, None, "ia = msg.fa (same message, floats)")
    add("ia", "from", None, ("SELF", "ua"), REFUSE, None, "ia = msg.ua (same message, other kind)")
    add("fa", "from", None, ("SELF", "ia"), REFUSE, None, "fa = msg.ia (same message)")
    # another validator kind with the same element C type and length
    add("ua", "from", None, ("VT2", "b4"), REFUSE, None, "ua = other.b4 (byte array)")
    add("ba", "from", None, ("VT2", "u6"), REFUSE, None, "ba = other.u6 (uint8 array)")
    add("ia", "from", None, ("VT2", "uc"), REFUSE, None, "ia = other.uc (uint8, shorter)")
    return T


_TABLE = []


def table():
    if not _TABLE:
        _TABLE.extend(build_table())
    return _TABLE


_FLOAT_IDX = []


def float_case_indices():
    if not _FLOAT_IDX:
        _FLOAT_IDX.extend(i for i, c in enumerate(table()) if c.field in ("f32", "f64") or
                          (c.field in ("fa", "da") and c.op == "item"))
    return _FLOAT_IDX


# ---------------------------------------------------------------------- execution of one assignment
def materialise(v):
    """turn table placeholders into fresh objects"""
    C = classes()
    if isinstance(v, tuple) and v and v[0] == "inner":
        x = C["INNER"]()
        x.a, x.b = v[1], v[2]
        return x
    if isinstance(v, tuple) and v and v[0] == "other":
        return C["OTHER"]()
    if isinstance(v, tuple) and v and v[0] == "inner_twin":
        x = C["INNER_TWIN"]()
        x.a, x.b = v[1], v[2]
        return x
    if isinstance(v, tuple) and v and v[0] == "cls_inner":
        return C["INNER"]
    if isinstance(v, tuple) and v and v[0] == "carray":
        ct = getattr(ctypes, v[1])
        return (ct * len(v[2]))(*v[2])
    if isinstance(v, list):
        return [materialise(x) for x in v]
    return v


def fill(msg, salt):
    """deterministic non-zero content so that 'unchanged' is meaningful"""
    raw = bytes(((salt * 37 + i * 11) & 0x7F) for i in range(ctypes.sizeof(msg)))
    ctypes.memmove(ctypes.addressof(msg), raw, len(raw))
    # keep the float fields finite / the char fields ascii: overwrite them through ctypes
    for nm, val in (("_f32", 1.25), ("_f64", -2.5), ("_ch", b"q"), ("_s", b"init")):
        setattr(msg, nm, val)
    for i in range(5):
        msg._fa[i] = 0.5 * i
    for i in range(4):
        msg._da[i] = -0.25 * i
    for i in range(3):
        msg._sa[i]._b = float(i)
    msg._st._b = 3.0


def field_span(msg, field):
    d = getattr(type(msg), "_" + field)
    return d.offset, d.offset + d.size


def do_assign(msg, case: Case, in_force: bool, res: RunResult, who: str, accessor=None, prime=False, twin=False,
              via_copy=0):
    """perform one table case on msg and judge it"""
    C = classes()
    value = materialise(case.value)
    orig = orig_bytes = None
    if via_copy and in_force and accessor is None:
        # the assignment is made on a copy of the message (copy.copy / copy.deepcopy / pickle) taken after its
        # fields had been looked at: the copy is a message of its own
        import copy
        import pickle
        try:
            for nm in ("st", "sa", "ia", "fa", "ba", "s"):
                getattr(msg, nm)
            _ = msg.sa[0]
            dup = {1: copy.copy, 2: copy.deepcopy, 3: lambda m: pickle.loads(pickle.dumps(m))}[via_copy](msg)
            if type(dup) is type(msg) and bytes(dup) == bytes(msg):
                orig, orig_bytes, msg = msg, bytes(msg), dup
                res.probes["assigned_on_a_copy"] += 1
        except Exception:
            pass
    twin_obj = twin_bytes = None
    if twin and in_force and accessor is None:
        # a second, independent message of the same type with exactly the same content, whose field was looked
        # at a moment ago: nothing that is assigned to msg may end up there
        try:
            twin_obj = type(msg).from_buffer_copy(bytes(msg))
            twin_bytes = bytes(twin_obj)
            getattr(twin_obj, case.field)
            res.probes["twin_message_touched"] += 1
        except Exception:
            twin_obj = None
    if prime and in_force and case.op in ("set", "slice") and case.field in ARRAYS and isinstance(value, list):
        # the very same list object was assigned (with the field's current, valid content) just before, and was
        # then changed in place into the value of this case
        try:
            cur = getattr(msg, case.field)
            obj = list(cur[:]) if case.op == "set" else list(cur[case.key])
            if case.op == "set":
                setattr(msg, case.field, obj)
            else:
                (accessor if accessor is not None else getattr(msg, case.field))[case.key] = obj
            obj[:] = value
            value = obj
            res.probes["same_object_reassigned"] += 1
        except Exception:
            value = materialise(case.value)
    before = bytes(msg)
    other = None
    if case.op == "from":
        other = C[case.value[0]]() if case.value[0] != "SELF" else msg
        for i in range(len(getattr(other, case.value[1]))):
            try:
                if case.value[1] in ("sa", "so", "sc"):
                    getattr(other, case.value[1])[i].a = i + 1
                else:
                    getattr(other, "_" + case.value[1])[i] = i + 1
            except Exception:
                pass
        value = getattr(other, case.value[1])
        before = bytes(msg)          # (a source inside the same message was filled in just now)
    raised = None
    try:
        if case.op in ("set", "from"):
            setattr(msg, case.field, value)
        elif case.op in ("item", "slice"):
            (accessor if accessor is not None else getattr(msg, case.field))[case.key] = value
        elif case.op == "nested":
            tgt = getattr(msg, case.key[0])
            if len(case.key) == 3:
                tgt = tgt[case.key[1]]
            setattr(tgt, case.key[-1], value)
    except Exception as e:          # any exception counts as a refusal
        raised = e
    after = bytes(msg)
    lo, hi = field_span(msg, case.field)
    if orig is not None and bytes(orig) != orig_bytes:
        res.add("C09", "other_message_changed", f"{who}: {case.label} on a copy of the message changed the original",
                sig=f"other_message_changed:copy:{case.field}")
    if twin_obj is not None and bytes(twin_obj) != twin_bytes:
        res.add("C09", "other_message_changed", f"{who}: {case.label} changed another message of the same type "
                                                f"(equal content, its field had been read just before)",
                sig=f"other_message_changed:{case.field}")
    if not in_force:
        return raised is None
    res.probes["assign_" + case.op] += 1
    if raised is not None:
        res.probes["refused"] += 1
        if after != before:
            changed = [i for i in range(len(after)) if after[i] != before[i]]
            res.add("C09", "not_atomic", f"{who}: {case.label} raised {type(raised).__name__} but bytes {changed[:8]} of the "
                                         f"message changed", sig=f"not_atomic:{case.field}:{case.op}")
        if case.verdict == ACCEPT:
            res.probes["in_domain_refused"] += 1
        return False
    res.probes["accepted"] += 1
    if case.verdict == REFUSE:
        res.add("C09", "out_of_domain_accepted", f"{who}: {case.label} was accepted with validation in force",
                sig=f"out_of_domain_accepted:{case.field}:{case.op}")
        return True
    if after[:lo] != before[:lo] or after[hi:] != before[hi:]:
        res.add("C09", "other_field_changed", f"{who}: {case.label} changed bytes outside the field",
                sig=f"other_field_changed:{case.field}")
    if case.verdict == ACCEPT:
        ok, got = readback_ok(msg, case, value)
        if not ok:
            res.add("C09", "readback_mismatch", f"{who}: {case.label} read back {got!r}", sig=f"readback:{case.field}:{case.op}")
    return True


def readback_ok(msg, case, value):
    f = case.field
    got = getattr(msg, f)
    rb = case.readback
    if case.op == "nested":
        tgt = getattr(msg, case.key[0])
        if len(case.key) == 3:
            tgt = tgt[case.key[1]]
        g = getattr(tgt, case.key[-1])
        return (same_float(g, rb) if isinstance(rb, float) else (g == rb and type(g) is int)), g
    if f in INTS or f == "by":
        return (got == rb and type(got) is int), got
    if f in ("f32", "f64"):
        return same_float(got, rb), got
    if f in ("ch", "s"):
        return got == rb, got
    if f == "ba":
        if case.op == "set":
            return bytes(got[:]) == bytes(rb), bytes(got[:])
        if case.op == "item":
            return got[case.key] == bytes([rb]), got[case.key]
        if case.op == "slice":
            return bytes(got[case.key]) == bytes(rb), bytes(got[case.key])
        return bytes(got[:]) == bytes(value[:]), bytes(got[:])
    if f in ARRAYS:
        if case.op == "set":
            g = list(got[:])
            return all(same_float(float(a), float(b)) if isinstance(b, float) else a == b for a, b in zip(g, rb)) and len(g) == len(rb), g
        if case.op == "item":
            g = got[case.key]
            return (same_float(g, rb) if isinstance(rb, float) else g == rb), g
        if case.op == "slice":
            g = list(got[case.key])
            return len(g) == len(rb) and all(same_float(float(a), float(b)) if isinstance(b, float) else a == b for a, b in zip(g, rb)), g
        return list(got[:]) == list(value[:]), list(got[:])
    if f == "st":
        return bytes(got) == bytes(value), bytes(got)
    if f == "sa":
        if case.op == "set":
            return all(bytes(got[i]) == bytes(value[i]) for i in range(3)), None
        if case.op == "item":
            return bytes(got[case.key]) == bytes(value), None
        if case.op == "slice":
            g = got[case.key]
            return all(bytes(a) == bytes(b) for a, b in zip(g, value)) and len(g) == len(value), None
        return all(bytes(got[i]) == bytes(value[i]) for i in range(3)), None
    return True, got


# ---------------------------------------------------------------------- programs of disable blocks
class Boom(Exception):
    pass


class Interrupt(BaseException):
    """stands for KeyboardInterrupt / SystemExit / CancelledError / GeneratorExit leaving a block: not an Exception"""


class ValidationRun:
    def __init__(self, choices, forced=None):
        self.ch = choices
        self.forced = forced or {}
        self.res = RunResult()

    def t(self, s):
        self.res.trace.append(s)

    def gen_program(self, depth=0, budget=None):
        """a tree: ('assign', case_index) | ('probe',) | ('block', ignore, exit, body)"""
        ch = self.ch
        n = 1 + ch.pick("prog.len", 5 if depth else 7)
        out = []
        tbl = table()
        for _ in range(n):
            k = ch.weighted("prog.op", [(5, "assign"), (3, "probe"), (4 if depth < 3 else 0, "block"), (2, "grab"), (3, "use")])
            if k == "assign":
                if getattr(self, "float_bias", False) and ch.flag("prog.floatcase", 2, 3):
                    fl = float_case_indices()
                    out.append(("assign", fl[ch.pick("prog.fcase", len(fl))]))
                else:
                    out.append(("assign", ch.pick("prog.case", len(tbl))))
            elif k == "grab":
                out.append(("grab", ch.choose("prog.grabf", ["ia", "ua", "fa", "da", "ba", "sa", "la"])))
            elif k == "use":
                out.append(("use", ch.pick("prog.case", len(tbl))))
            elif k == "probe":
                out.append(("probe",))
            else:
                ignore = ch.flag("prog.ignore", 1, 5)
                exit_ = ch.weighted("prog.exit", [(3, "normal"), (2, "exception"), (1, "lib_exception"),
                                                  (1, "interrupt")])
                out.append(("block", ignore, exit_, self.gen_program(depth + 1)))
        return out

    def exec_program(self, who, msg, prog, real_depth, sched):
        from pyrtma.validators import disable_message_validation
        res = self.res
        tbl = table()
        for op in prog:
            sched.yield_point("op.boundary")
            in_force = real_depth == 0
            if getattr(self, "_abort_" + who, False):
                return
            if op[0] == "assign":
                case = tbl[op[1]]
                if in_force and not self.in_force_now(msg):
                    # validation is off although this task is outside every block: report that, and
                    # stop this task (everything it would assign next would be misattributed)
                    res.add("C09", "validation_off_outside_block",
                            f"{who}: not inside any disable block (own depth 0) but i8=1000 was accepted",
                            sig="validation_off_outside_block")
                    setattr(self, "_abort_" + who, True)
                    return
                self.t(f"{who} depth={real_depth}: {case.label}")
                do_assign(msg, case, in_force, res, who, prime=self.ch.flag("as.prime", 1, 4),
                          twin=self.ch.flag("as.twin", 1, 4),
                          via_copy=self.ch.weighted("as.copy", [(9, 0), (1, 1), (1, 2), (1, 3)]))
            elif op[0] == "grab":
                # keep an array accessor obtained now (possibly inside a block) for later use
                acc = getattr(self, "_acc_" + who, None)
                if acc is None:
                    acc = {}
                    setattr(self, "_acc_" + who, acc)
                acc[op[1]] = (getattr(msg, op[1]), real_depth)
                self.t(f"{who} depth={real_depth}: keep accessor msg.{op[1]}")
            elif op[0] == "use":
                acc = getattr(self, "_acc_" + who, None) or {}
                case = tbl[op[1]]
                if case.field in acc and case.op in ("item", "slice"):
                    if in_force and not self.in_force_now(msg):
                        res.add("C09", "validation_off_outside_block",
                                f"{who}: not inside any disable block (own depth 0) but i8=1000 was accepted",
                                sig="validation_off_outside_block")
                        setattr(self, "_abort_" + who, True)
                        return
                    a, d0 = acc[case.field]
                    self.t(f"{who} depth={real_depth}: {case.label} through the accessor kept at depth {d0}")
                    if in_force and d0 > 0:
                        res.probes["stale_accessor_used_in_force"] += 1
                    do_assign(msg, case, in_force, res, who, accessor=a)
            elif op[0] == "probe":
                before = bytes(msg)
                accepted = True
                try:
                    msg.i8 = 1000
                except Exception:
                    accepted = False
                if not accepted and bytes(msg) != before:
                    res.add("C09", "not_atomic", f"{who}: probe i8=1000 raised but changed the message")
                self.t(f"{who} depth={real_depth}: probe i8=1000 -> {'accepted' if accepted else 'refused'}")
                if in_force:
                    res.probes["probe_in_force"] += 1
                    if accepted:
                        res.add("C09", "validation_off_outside_block",
                                f"{who}: not inside any disable block (own depth 0) but i8=1000 was accepted",
                                sig="validation_off_outside_block")
                        msg._i8 = 1
                        setattr(self, "_abort_" + who, True)
                        return
                else:
                    res.probes["probe_inside_block"] += 1
                    if accepted:
                        res.probes["validation_off_inside_block"] += 1
            else:
                _b, ignore, exit_, body = op
                nd = real_depth + (0 if ignore else 1)
                self.t(f"{who} depth={real_depth}: enter disable_message_validation(ignore={ignore}) exit={exit_}")
                res.probes["block_" + exit_] += 1
                if real_depth and not ignore:
                    res.probes["nested_block"] += 1
                try:
                    with disable_message_validation(ignore=ignore):
                        self.exec_program(who, msg, body, nd, sched)
                        sched.yield_point("op.boundary")
                        if exit_ == "exception":
                            raise Boom()
                        if exit_ == "interrupt":
                            raise Interrupt()
                        if exit_ == "lib_exception":
                            # the library itself raises inside a disable block: a refused assignment
                            # while validation is nominally off (wrong python type for a ctypes field)
                            msg.i8 = "not a number"
                            raise Boom()
                except (Boom, Interrupt, TypeError, ValueError):
                    pass
                self.t(f"{who} depth={real_depth}: left block")

    def make_tracer(self, sched):
        ch = self.ch
        res = self.res

        def local(frame, event, arg):
            if event == "line" and ch.flag("line.switch", 1, 12):
                res.stats["line_preemptions"] += 1
                sched.preempt("line")
            return local

        def tracer(frame, event, arg):
            if event == "call" and frame.f_code.co_filename.endswith("pyrtma/validators.py"):
                return local
            return None

        return tracer

    @staticmethod
    def in_force_now(msg) -> bool:
        keep = msg._i8
        try:
            msg.i8 = 1000
        except Exception:
            return True
        msg._i8 = keep
        return False

    def header_alias_probe(self):
        """the header's public aliases of validated fields (version -> reserved) are validated like the fields"""
        import pyrtma
        from pyrtma.header import TimeCodeMessageHeader
        res = self.res
        for cls in (pyrtma.MessageHeader, TimeCodeMessageHeader):
            h = cls()
            h.version = 7
            for bad in (-1, 2 ** 32, 2 ** 40, 1.5, "7", None):
                before = bytes(h)
                try:
                    h.version = bad
                except Exception:
                    if bytes(h) != before:
                        res.add("C09", "not_atomic", f"{cls.__name__}.version={bad!r} raised but the header changed",
                                sig="not_atomic:header.version")
                    continue
                res.add("C09", "out_of_domain_accepted",
                        f"{cls.__name__}.version={bad!r} was accepted with validation in force (reads back {h.version!r})",
                        sig="out_of_domain_accepted:header.version")
                break
            for good in (0, 1, 2 ** 32 - 1):
                h.version = good
                if h.version != good or h.reserved != good:
                    res.add("C09", "readback_mismatch", f"{cls.__name__}.version={good} read back {h.version!r}",
                            sig="readback:header.version")
        res.probes["header_alias_probe"] += 1

    def run(self) -> RunResult:
        res = self.res
        ch = self.ch
        classes()
        VT = _CLS["VT"]
        clock = Clock()
        sched = Sched(ch, clock, p_switch=(1, 2))
        hung = False
        try:
            f = self.forced
            self.header_alias_probe()
            if "case" in f:
                msg = VT()
                fill(msg, f["case"])
                case = table()[f["case"]]
                self.t(f"single assignment: {case.label}")
                do_assign(msg, case, True, res, "main", prime=bool(f.get("prime")), twin=bool(f.get("twin")),
                          via_copy=int(f.get("copy", 0)))
                res.enumerated.setdefault("table_cases", set()).add(f["case"])
            else:
                ntasks = 1 + ch.pick("cfg.ntasks", 3)
                # line-level mode: tasks may also be pre-empted between any two lines of the validators
                self.linemode = ntasks > 1 and ch.flag("cfg.linemode", 1, 3)
                self.float_bias = self.linemode
                progs = [self.gen_program() for _ in range(ntasks)]
                msgs = []
                for i in range(ntasks):
                    m = VT()
                    fill(m, i + 1)
                    msgs.append(m)
                tasks = []
                tracer = self.make_tracer(sched) if self.linemode else None

                def body(i):
                    import sys
                    if tracer is not None:
                        sys.settrace(tracer)
                    try:
                        self.exec_program(f"task{i}", msgs[i], progs[i], 0, sched)
                    finally:
                        if tracer is not None:
                            sys.settrace(None)

                for i in range(1, ntasks):
                    tasks.append(sched.spawn(f"task{i}", (lambda i=i: body(i))))
                if self.linemode:
                    res.probes["line_level_mode"] += 1
                body(0)
                # let the others finish
                guard = 0
                while any(not st.done for st in tasks):
                    guard += 1
                    if guard > 100000:
                        raise SimStall("tasks do not finish")
                    sched.block("join", lambda: all(st.done for st in tasks), None)
                for st in tasks:
                    if st.task.exc is not None:
                        e = st.task.exc
                        res.add("C09", "task_exception", f"{st.name} died: {type(e).__name__}: {e}")
                res.probes[f"tasks_{ntasks}"] += 1
        except SimStall as e:
            res.add("C09", "sim_internal", str(e))
        finally:
            try:
                sched.kill_all()
            except Exception:
                pass
            h = hashlib.sha256()
            for l in res.trace:
                h.update(l.encode())
            for ev in sched.log:
                h.update(repr(ev).encode())
            res.digest = h.hexdigest()
            res.n_choices = len(ch.trace)
            res.stats["task_switches"] += sched.switches
            res.nontrivial = bool(res.probes.get("refused") or res.probes.get("probe_in_force"))
        return res


def run(choices, forced=None) -> RunResult:
    # a fresh, empty context per run: whatever a run leaves in the ContextVar must not leak into the next
    import contextvars
    return contextvars.Context().run(ValidationRun(choices, forced).run)


def det_cases(tier):
    n = len(table())
    idx = range(n) if tier == "thorough" else range(0, n, 3)
    out = [dict(case=i) for i in idx]
    # the array cases once more with the same list object assigned twice (changed in place in between)
    tbl = table()
    primed = [i for i in range(n) if tbl[i].op in ("set", "slice") and tbl[i].field in ARRAYS and isinstance(tbl[i].value, list)]
    out += [dict(case=i, prime=True) for i in (primed if tier == "thorough" else primed[::3])]
    # every case once more next to a twin message of equal content whose field was just read
    out += [dict(case=i, twin=True) for i in (range(n) if tier == "thorough" else range(1, n, 5))]
    # ... and on a copy of the message (copy / deepcopy / pickle)
    for how in (1, 2, 3):
        out += [dict(case=i, copy=how) for i in (range(n) if tier == "thorough" else range(how, n, 9))]
    return out
