"""Harness `clientpub` (part of the C01 check): the publisher is a real pyrtma.Client.

C01 is about messages "published by a connected client".  In the `pubsub` harness the publishers are raw
actors; here one publisher goes through the public Python API (send_signal / send_message / forward_message),
and the oracle checks that what leaves the client, what the manager reads and what the recipients get all carry
the type, source, destination and payload the caller asked for.
"""
from __future__ import annotations

import logging
import struct

from sim import codec as C
from sim.actors import Actor, TAG_BASE
from sim.world import World, ManagerCrashed
from sim.net import SimStall
from .base import RunResult

ALL = C.ALL_MESSAGE_TYPES
USER_T = 5200


class ClientPubRun:
    def __init__(self, choices, prop="C01"):
        self.ch = choices
        self.prop = prop
        self.res = RunResult()
        self.w = None
        self.client = None
        self.sent = []       # what the caller asked for, in order

    def t(self, s):
        self.res.trace.append(s)

    def user_cls(self):
        import pyrtma
        from pyrtma.message_base import MessageMeta
        from pyrtma.validators import Int32, IntArray, Int16

        class MDF_VERIF_PUB(pyrtma.MessageData, metaclass=MessageMeta):
            type_id = USER_T
            type_name = "VERIF_PUB"
            type_hash = 0x5200
            type_size = 24
            type_source = ""
            type_def = ""
            n: Int32 = Int32()
            arr: IntArray = IntArray(Int16, 10)
        return pyrtma.message_def(MDF_VERIF_PUB)

    def run(self) -> RunResult:
        import pyrtma
        import pyrtma.core_defs as cd
        from pyrtma.exceptions import (ClientError, InvalidDestinationHost, InvalidDestinationModule)
        ch = self.ch
        res = self.res
        timecode = bool(ch.pick("cfg.timecode", 2))
        host = ch.choose("cfg.host", [0, 0, 1, 3, 5])
        rid = ch.choose("cfg.rid", [11, 11, 0])
        self.w = w = World(ch, timecode=timecode, log_level=logging.ERROR, send_msg_timing=bool(ch.pick("cfg.timing", 2)),
                           p_notwritable=(0, 1))
        res.config = dict(harness="clientpub", timecode=timecode, host_id=host, module_id=rid)
        w.patch()
        try:
            if ch.flag("cfg.other_layout_first", 1, 3):
                # before anything else the process has worked with the other header layout (a client of another system)
                from pyrtma.header import get_header_cls
                other = get_header_cls(not timecode)()
                _ = other.size
                _ = bytes(other)
                oc = pyrtma.Client(module_id=12, timecode=not timecode)
                w.register_client_logger(oc)
                res.probes["other_header_layout_used_first"] += 1
            w.start_manager()
            mon = Actor(w, "mon")
            mon.open()
            mon.handshake("v2v1", req_id=90, logger=True, name=b"monitor")
            mon.subscribe(ALL)
            sub = Actor(w, "S")
            sub.open()
            sub.handshake("v2v1", req_id=30, name=b"")
            sub.subscribe(ALL)
            w.quiesce()
            cls = self.user_cls()
            c = pyrtma.Client(module_id=rid, host_id=host, timecode=timecode)
            self.client = c
            w.register_client_logger(c)
            try:
                c.connect(f"127.0.0.1:{w.PORT}")
            except ClientError as e:
                res.add(self.prop, "client_cannot_connect",
                        f"Client.connect to a manager that acknowledged the request failed with {type(e).__name__}",
                        sig="client_cannot_connect")
                return res
            w.quiesce()
            # what the manager sent to the client so far reads as the acknowledgement the client saw
            if c.module_id <= 0:
                res.add(self.prop, "client_cannot_connect", f"after connect() the client's module id is {c.module_id}")
                return res
            my_id = c.module_id
            conn = c._sock.peer.idx
            hs = w.net.hs
            n_ops = 1 + ch.pick("n.ops", 8)
            from pyrtma.exceptions import ConnectionLost
            try:
                for i in range(n_ops):
                    kind = ch.weighted("op.kind", [(4, "signal"), (4, "message"), (2, "forward"), (1, "bad_dest")])
                    dm = ch.choose("op.dm", [0, 0, 30, 90, 77, 199])
                    dh = ch.choose("op.dh", [0, 0, 1, 5, host])
                    if kind == "signal":
                        tt = ch.choose("op.sig", [1000, 0, 62, 9999])
                        c.send_signal(tt, dest_mod_id=dm, dest_host_id=dh)
                        self.sent.append(dict(api=f"send_signal({tt}, dest_mod_id={dm}, dest_host_id={dh})", type=tt, src=my_id,
                                              src_host=host, dm=dm, dh=dh, payload=b""))
                    elif kind == "message":
                        d = cls()
                        d.n = 100 + i
                        d.arr[:] = [i * 3 + k for k in range(10)]
                        c.send_message(d, dest_mod_id=dm, dest_host_id=dh)
                        self.sent.append(dict(api=f"send_message(VERIF_PUB n={100 + i}, dest_mod_id={dm}, dest_host_id={dh})",
                                              type=USER_T, src=my_id, src_host=host, dm=dm, dh=dh, payload=bytes(d)))
                    elif kind == "forward":
                        # a header the caller filled in himself is sent as it is
                        h = c._header_cls()
                        d = cls()
                        d.n = 500 + i
                        h.msg_type = USER_T
                        h.src_mod_id = ch.choose("fw.src", [my_id, 55])
                        h.src_host_id = ch.choose("fw.sh", [host, 2])
                        h.dest_mod_id = dm
                        h.dest_host_id = dh
                        h.send_time = 77.0 + i
                        # (a header taken over from a message received earlier still carries that message's size: the
                        # size on the wire is the size of the data that is handed over)
                        stale = ch.choose("fw.stale", [0, 0, 104, 4, 65535])
                        if stale:
                            h.num_data_bytes = stale
                            res.probes["forward_with_stale_size_field"] += 1
                        c.forward_message(h, d)
                        self.sent.append(dict(api=f"forward_message(header src={h.src_mod_id}/{h.src_host_id} dest={dm}/{dh})",
                                              type=USER_T, src=h.src_mod_id, src_host=h.src_host_id, dm=dm, dh=dh,
                                              payload=bytes(d)))
                    else:
                        bad_dm = ch.choose("op.baddm", [-1, 1000, None])
                        try:
                            if bad_dm is None:
                                c.send_signal(1000, dest_mod_id=0, dest_host_id=ch.choose("op.baddh", [-1, 6, 100]))
                            else:
                                c.send_signal(1000, dest_mod_id=bad_dm, dest_host_id=0)
                            res.add(self.prop, "client_accepts_bad_destination",
                                    "send_signal accepted a destination outside the valid range")
                        except (InvalidDestinationModule, InvalidDestinationHost):
                            res.probes["client_refused_bad_destination"] += 1
                    self.t(self.sent[-1]["api"] if kind != "bad_dest" else "send_signal with a destination out of range")
                    if ch.flag("op.step", 1, 2):
                        w.quiesce()
            except ConnectionLost:
                # nothing in this workload takes the connection away: the manager gave the publisher up (or stopped
                # reading) because of what the client put on the wire
                res.add(self.prop, "client_publish_lost_connection",
                        f"{self.sent[-1]['api'] if self.sent else 'publishing'}: the publishing call ended with "
                        f"ConnectionLost although nothing disturbed the connection", sig="client_publish_lost_connection")
                return res
            w.quiesce()
            # what the manager read from the client's connection after the handshake
            frames = [fr for fr in w.net.reads if fr.conn == conn and fr.complete
                      and fr.hdr.msg_type not in C.CONTROL_TYPES]
            if len(frames) != len(self.sent):
                res.add(self.prop, "client_publish_count",
                        f"{len(self.sent)} messages were published through the client API, the manager read {len(frames)} "
                        f"data frames from that connection", sig="client_publish_count")
            for want, fr in zip(self.sent, frames):
                h = fr.hdr
                got = (h.msg_type, h.src_mod_id, h.src_host_id, h.dest_mod_id, h.dest_host_id, bytes(fr.payload))
                exp = (want["type"], want["src"], want["src_host"], want["dm"], want["dh"], want["payload"])
                if got != exp:
                    names = ["type", "source module", "source host", "destination module", "destination host", "payload"]
                    bad = [names[k] for k in range(6) if got[k] != exp[k]]
                    res.add(self.prop, "client_publish_header",
                            f"{want['api']}: the frame that reached the manager differs in {', '.join(bad)}: "
                            f"{got[:5]} instead of {exp[:5]}", sig="client_publish_header:" + bad[0])
                    break
            # and the logger monitor (which gets everything) received each of them once, unchanged
            mfr, _ = mon.received()
            mine = [(h, p) for h, p in mfr if h.send_time < TAG_BASE and h.msg_type in (USER_T, 1000, 0, 62, 9999)
                    and not (h.src_mod_id == 0 and h.msg_type == 0)]
            mine = [(h, p) for h, p in mine if h.src_mod_id in (my_id, 55)]
            valid = [s for s in self.sent]
            if len(mine) != len(valid):
                res.add(self.prop, "client_publish_delivery",
                        f"{len(valid)} messages were published through the client API, the logger monitor received {len(mine)}",
                        sig="client_publish_delivery")
            else:
                for want, (h, p) in zip(valid, mine):
                    got = (h.msg_type, h.src_mod_id, h.src_host_id, h.dest_mod_id, h.dest_host_id, bytes(p))
                    exp = (want["type"], want["src"], want["src_host"], want["dm"], want["dh"], want["payload"])
                    if got != exp:
                        res.add(self.prop, "client_publish_delivery",
                                f"{want['api']}: the logger monitor received {got[:5]} instead of {exp[:5]}",
                                sig="client_publish_delivery")
                        break
            # the ordinary subscriber gets exactly the broadcasts and what is addressed to it
            sfr, _ = sub.received()
            got_s = [(h.msg_type, h.dest_mod_id, bytes(p)) for h, p in sfr
                     if h.send_time < TAG_BASE and h.src_mod_id in (my_id, 55) and h.msg_type in (USER_T, 1000, 62, 9999, 0)
                     and not (h.src_mod_id == 0)]
            exp_s = [(s["type"], s["dm"], s["payload"]) for s in self.sent if s["dm"] in (0, 30)]
            if got_s != exp_s:
                res.add(self.prop, "client_publish_routing",
                        f"subscriber id 30 received {len(got_s)} of the client's messages, {len(exp_s)} were broadcast or "
                        f"addressed to it", sig="client_publish_routing")
            res.probes["client_api_publishes"] += len(self.sent)
            # the other direction: the client as a subscriber reads what somebody else publishes, unchanged
            from pyrtma.exceptions import RTMAMessageError
            try:
                c.subscribe([USER_T])
            except ConnectionLost:
                # (nothing in this workload takes the connection away)
                res.add(self.prop, "client_publish_lost_connection",
                        "after publishing, subscribe() ended with ConnectionLost although nothing disturbed the "
                        "connection: the manager gave the client up because of what it had put on the wire",
                        sig="client_publish_lost_connection")
                return res
            w.quiesce()
            for j in range(1 + ch.pick("n.reads", 3)):
                d = cls()
                d.n = 900 + j
                d.arr[:] = [j * 7 + k for k in range(10)]
                sub.send_raw(sub.frame(USER_T, bytes(d), dest_mod=ch.choose("rd.dm", [0, my_id])))
                w.quiesce()
                try:
                    m = c.read_message(timeout=0.5)
                except (ClientError, RTMAMessageError) as e:
                    res.add(self.prop, "client_receive",
                            f"a message of a subscribed type published by module 30 made read_message raise {type(e).__name__}",
                            sig="client_receive")
                    break
                except SimStall:
                    # the whole message has been delivered, the manager is idle, nothing is in flight -- and the
                    # client still waits for more bytes
                    res.add(self.prop, "client_receive",
                            "a message of a subscribed type published by module 30 was delivered completely, but "
                            "read_message(timeout=0.5) waits for ever for more bytes", sig="client_receive")
                    break
                if m is None or m.header.msg_type != USER_T or bytes(m.data) != bytes(d) or m.header.src_mod_id != 30:
                    got = None if m is None else (m.header.msg_type, m.header.src_mod_id, bytes(m.data)[:8])
                    res.add(self.prop, "client_receive",
                            f"module 30 published VERIF_PUB n={900 + j}; the subscribed client read {got}", sig="client_receive")
                    break
                res.probes["client_api_reads"] += 1
        except ManagerCrashed as e:
            res.crash = e.signature()
            res.crash_detail = str(e)
            self.t(f"MANAGER CRASHED: {e}")
        finally:
            if self.client is not None:
                self.client._connected = False
            try:
                import pyrtma.message as PM
                PM._msg_defs.pop(USER_T, None)
            except Exception:
                pass
            st = w.net.stats
            res.stats.update({k: v for k, v in st.items() if v})
            res.digest = w.digest()
            res.sim_seconds = w.clock.advanced
            res.round_sigs = set(w.net.round_sigs)
            res.n_choices = len(ch.trace)
            res.nontrivial = True
            w.teardown()
        return res


def run(choices, prop="C01") -> RunResult:
    return ClientPubRun(choices, prop).run()
