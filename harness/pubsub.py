"""Harness `pubsub`: raw actors against the real manager.  Oracles for C01, C05, C19, C14."""
from __future__ import annotations

import logging
from collections import Counter, defaultdict
from typing import Dict, List

from sim import codec as C
from sim.actors import Actor, TAG_BASE
from sim.model import PubSubModel, MUST_ACCEPT, MUST_REFUSE, DONT_CARE, IGNORED, ALL
from sim.world import World, ManagerCrashed
from sim.net import SimStall
from .base import RunResult

INT_MIN = -(2 ** 31)
INT_MAX = 2 ** 31 - 1

TYPE_POOL_SAFE = [1000, 1001, 1002, 2500, 5000, 0, 1, 62, 80, 9999, 8, 44, 30, 33, 32, 2]
TYPE_POOL_EDGE = [-1, INT_MIN, 10000, INT_MAX - 1, 65536]

DEST_MODS = [0, "live", "unused", "logger", 200, 201, -1, 32767]
DEST_HOSTS = [0, 5, 6, -1]


def payload_for(tag_no: int, n: int) -> bytes:
    if n == 0:
        return b""
    base = bytes(((tag_no * 7 + i * 13) & 0xFF) for i in range(min(n, 251)))
    if n <= len(base):
        return base[:n]
    return (base * (n // len(base) + 1))[:n]


def key_of(h, payload):
    """the fields C01 compares (msg_count is re-stamped by design)"""
    return (h.msg_type, h.send_time, h.recv_time, h.src_host_id, h.src_mod_id, h.dest_host_id,
            h.dest_mod_id, h.num_data_bytes, h.remaining_bytes, h.is_dynamic, h.reserved,
            h.utc_seconds, h.utc_fraction, payload)


PROFILES = {
    # weights of operation kinds and fault knobs per property
    "C01": dict(notw=[(0, 1), (1, 8), (1, 3)], ops=40, edge_types=True, leave_w=2, ctl_w=6,
                pub_w=10, noise_w=1, clock_w=1, early=6),
    "C05": dict(notw=[(0, 1), (1, 8)], ops=60, edge_types=False, leave_w=1, ctl_w=4, pub_w=16,
                noise_w=1, clock_w=3, early=4),
    "C19": dict(notw=[(0, 1), (1, 8)], ops=50, edge_types=False, leave_w=2, ctl_w=14, pub_w=5,
                noise_w=4, clock_w=1, early=5),
    "C14": dict(notw=[(1, 3), (1, 2), (1, 8)], ops=40, edge_types=False, leave_w=4, ctl_w=5,
                pub_w=12, noise_w=1, clock_w=1, early=6),
}


class PubSubRun:
    def __init__(self, choices, prop: str, overrides=None, forced=None):
        self.ch = choices
        self.forced = forced
        self.prop = prop
        self.prof = dict(PROFILES[prop])
        if overrides:
            self.prof.update(overrides)
        self.res = RunResult()
        self.actors: List[Actor] = []
        self.w: World = None
        self.universe: List[int] = []
        self.monitor: Actor = None
        self.used_ids = []
        self.n_named = 0

    # ------------------------------------------------------------------ config
    def setup(self):
        ch = self.ch
        prof = self.prof
        timecode = bool(ch.pick("cfg.timecode", 2))
        timing = not bool(ch.pick("cfg.timing_off", 3) == 2)
        lvl = ch.weighted("cfg.loglevel", [(4, logging.ERROR), (2, logging.INFO), (1, logging.DEBUG)])
        if getattr(self, "force_loglevel", None) is not None:
            lvl = self.force_loglevel
        notw = ch.choose("cfg.notw", prof["notw"])
        pool = list(TYPE_POOL_SAFE)
        if prof["edge_types"] and ch.flag("cfg.edge", 1, 2):
            pool += TYPE_POOL_EDGE
        k = 3 + ch.pick("cfg.ntypes", 3)
        uni = []
        for _ in range(k):
            t = ch.choose("cfg.type", pool)
            if t not in uni:
                uni.append(t)
        self.universe = uni
        self.res.config = dict(timecode=timecode, timing=timing, loglevel=lvl, notw=list(notw),
                               universe=uni, prop=self.prop)
        self.w = World(ch, timecode=timecode, log_level=lvl, send_msg_timing=timing,
                       p_notwritable=notw)
        self.w.patch()
        self.w.start_manager()
        self.n_ops = 5 + ch.pick("cfg.nops", prof["ops"])
        # a logger monitor subscribed to ALL: never skipped, so its view of notices is complete
        self.plain_monitor = False
        if self.prop in ("C14",) or ch.flag("cfg.monitor", 1, 2):
            mon = self.new_actor("mon")
            mon.open()
            # usually a logger (never skipped).  In a quarter of the C14 runs there is no logger at all: the observer
            # is an ordinary module subscribed to ALL whose connection the scheduler always reports writable
            self.plain_monitor = self.prop == "C14" and not self.forced and ch.flag("cfg.plain_monitor", 1, 4)
            mon.handshake("v2v1", req_id=90, logger=not self.plain_monitor, name=b"monitor")
            mon.subscribe(ALL)
            mon.protected = True
            if self.plain_monitor:
                self.w.always_writable.add(mon.conn)
                self.res.probes["no_logger_observer"] += 1
            self.monitor = mon
            self.t(f"monitor connects id=90 {'logger' if not self.plain_monitor else 'plain module'} sub ALL")
            self.w.quiesce()

    def t(self, s):
        self.res.trace.append(f"t={self.w.clock.now:.3f} {s}")

    def new_actor(self, name=None):
        a = Actor(self.w, name or f"a{len(self.actors)}")
        self.actors.append(a)
        return a

    # ------------------------------------------------------------------ ops
    def live_actors(self):
        return [a for a in self.actors if a.alive and a.handshake_sent and a is not self.monitor
                and not getattr(a, 'protected', False)]

    def op_connect(self):
        ch = self.ch
        a = self.new_actor()
        a.open()
        proto = ch.weighted("con.proto", [(5, "v2v1"), (2, "v1"), (1, "v2")])
        idk = ch.weighted("con.idkind", [(4, "pool"), (3, "dyn"), (1, "bad")])
        if idk == "pool":
            rid = 10 + ch.pick("con.id", 6)
        elif idk == "dyn":
            rid = 0
        else:
            rid = ch.choose("con.badid", [101, 150, 200, -1, -32768, 32767, 99, 1])
        logger = ch.flag("con.logger", 1, 6) and not getattr(self, "plain_monitor", False)
        multi = ch.flag("con.multi", 1, 4)
        nm = ch.weighted("con.name", [(10, b""), (4, b"shared"), (4, b"n%d" % len(self.actors)), (1, b"caf\xc3\xa9"),
                                      (1, b"\xff\xfe")])
        if proto == "v1":
            multi = False
            nm = b""
        if self.prof.get("early", 0) and ch.flag("con.early", 1, self.prof["early"]):
            # control frames before the handshake: the manager handles (and numbers) them all the same
            for _ in range(1 + ch.pick("con.nearly", 2)):
                a.send(C.MT_SUBSCRIBE, C.pack_sub(self.pick_type("con.earlyt")), src=0)
            self.res.probes["pre_handshake_frames"] += 1
            self.t(f"{a.name} subscribes before connecting")
        a.host_id = ch.weighted("con.host", [(8, 0), (1, 1), (1, 5), (1, 7), (1, -1), (1, 32767)])
        hs = None
        if proto != "v1" and ch.flag("con.hdr_src", 1, 8):
            hs = ch.choose("con.hdr_src.v", [0, 9, 90])     # the CONNECT_V2 request is in the payload, not the header
        odd = None
        if not logger and ch.flag("con.oddstatus", 1, 8):
            # only the value 1 in the logger field makes a logger
            odd = ch.choose("con.oddstatus.v", [2, -1, 256, 257])
            self.res.probes["odd_logger_status"] += 1
        a.handshake(proto, req_id=rid, logger=logger, allow_multiple=multi, name=nm,
                    pid=5000 + len(self.actors), hdr_src=hs, logger_status=odd)
        self.t(f"{a.name} connect proto={proto} id={rid} logger={logger} multi={multi} name={nm!r}"
               + (f" logger_status={odd}" if odd is not None else ""))

    def pick_type(self, label):
        ch = self.ch
        if ch.flag(label + ".all", 1, 7):
            return ALL
        return ch.choose(label, self.universe)

    def op_control(self, a: Actor):
        ch = self.ch
        kind = ch.weighted("ctl.kind", [(5, "sub"), (2, "unsub"), (2, "pause"), (2, "resume")])
        t = self.pick_type("ctl.type")
        if ch.flag("ctl.dest", 1, 6):
            # the destination fields of a control frame's header carry no meaning; any value may stand there
            a.ctl_dest = (ch.choose("ctl.dest.mod", [0, 10, 77, 200, 201, 250, -3, 32767]),
                          ch.choose("ctl.dest.host", [0, 1, 5, 6, 9, -1]))
            self.res.probes["control_frame_with_destination"] += 1
        if ch.flag("ctl.cut", 1, 14):
            # the sender dies inside the header of a control frame: nothing was received, nothing is acknowledged
            mt = {"sub": C.MT_SUBSCRIBE, "unsub": C.MT_UNSUBSCRIBE, "pause": C.MT_PAUSE_SUBSCRIPTION,
                  "resume": C.MT_RESUME_SUBSCRIPTION}[kind]
            raw = a.frame(mt, C.pack_sub(t))
            k = ch.choose("ctl.cut.k", [4, 8, 31, 36, 40, 47])
            a.flush_tail()
            a.send_partial(raw, k)
            a.leave(ch.choose("ctl.cut.way", ["fin", "fin", "rst"]))
            a.ctl_dest = (0, 0)
            self.res.probes["control_header_cut"] += 1
            self.t(f"{a.name} dies after {k} bytes of a {kind} header")
            return
        if ch.flag("ctl.short", 1, 14):
            # a control frame whose data section is shorter than its definition (a header-only SUBSCRIBE is what
            # Client.send_signal(MT_SUBSCRIBE) produces): it is a control frame all the same, handled and acknowledged
            k = ch.choose("ctl.short.k", [0, 0, 1, 3])
            mt = {"sub": C.MT_SUBSCRIBE, "unsub": C.MT_UNSUBSCRIBE, "pause": C.MT_PAUSE_SUBSCRIPTION,
                  "resume": C.MT_RESUME_SUBSCRIPTION}[kind]
            a.send(mt, C.pack_sub(t)[:k])
            a.ctl_dest = (0, 0)
            self.res.probes["short_control_frame"] += 1
            self.t(f"{a.name} {kind} with only {k} payload bytes")
            return
        if ch.flag("ctl.oddhdr", 1, 8):
            # ... and so may the other header fields a control frame has no use for (version, remaining bytes, ...)
            a.ctl_extra = dict(reserved=ch.choose("ctl.odd.res", [1, 0xDEADBEEF, 0x1234]),
                               remaining_bytes=ch.choose("ctl.odd.rem", [0, 5]),
                               recv_time=ch.choose("ctl.odd.rt", [0.0, 9.5]))
            self.res.probes["control_frame_odd_header"] += 1
        try:
            {"sub": a.subscribe, "unsub": a.unsubscribe, "pause": a.pause, "resume": a.resume}[kind](t)
        finally:
            a.ctl_dest = (0, 0)
            a.ctl_extra = {}
        self.t(f"{a.name} {kind} {'ALL' if t == ALL else t}")

    def op_noise(self, a: Actor):
        ch = self.ch
        k = ch.pick("noise.kind", 4)
        # (a repeated handshake frame may carry other flags than the first one: it is ignored all the same)
        flip = ch.flag("noise.flip", 1, 2)
        lg = int(a.is_logger) ^ int(flip)
        if k == 3:
            # a repeated CONNECT_V2 on a connected module (must be ignored, never acknowledged)
            a.send(C.MT_CONNECT_V2, C.pack_connect_v2(lg, int(flip), int(not a.unique) ^ int(flip), a.req_id, a.pid, a.mname),
                   src=a.req_id)
            self.t(f"{a.name} repeated CONNECT_V2" + (" with other flags" if flip else ""))
        elif k == 0:
            a.send(C.MT_MODULE_READY, C.pack_module_ready(7000 + len(a.sent)))
            self.t(f"{a.name} MODULE_READY")
        elif k == 1:
            nm = ch.choose("noise.name", [b"", b"renamed", b"shared", b"x" * 31])
            a.send(C.MT_CLIENT_SET_NAME, C.pack_set_name(nm))
            self.t(f"{a.name} SET_NAME {nm!r}")
        else:
            # a repeated handshake frame on a connected module (must be ignored, never acked)
            a.send(C.MT_CONNECT, C.pack_connect(lg, int(flip)), src=a.req_id)
            self.t(f"{a.name} repeated CONNECT" + (" with other flags" if flip else ""))

    def resolve_dest(self, kind):
        ch = self.ch
        if not isinstance(kind, str):
            return kind
        live = [a for a in self.actors if a.alive and a.handshake_sent]
        if kind == "live":
            c = [a.mod_id for a in live if a.mod_id > 0]
            return ch.choose("pub.dest.live", c) if c else 0
        if kind == "logger":
            c = [a.mod_id for a in live if a.is_logger and a.mod_id > 0]
            return ch.choose("pub.dest.logger", c) if c else 0
        return 77  # unused valid id

    def op_publish(self, a: Actor):
        ch = self.ch
        t = ch.choose("pub.type", self.universe)
        dm = self.resolve_dest(ch.weighted("pub.dest", [(10, 0), (4, "live"), (1, "unused"),
                                                         (2, "logger"), (1, 200), (1, 201),
                                                         (1, -1), (1, 32767)]))
        dh = ch.weighted("pub.host", [(12, 0), (1, 5), (1, 6), (1, -1)])
        n = ch.weighted("pub.size", [(16, 0), (24, "small"), (8, "mid"), (4, 65535), (1, "huge")])
        if n == "huge":
            n = ch.choose("pub.huge", [65536, 131072, 1048576, 1048575, 70000])
            self.res.probes["payload_over_64k"] += 1
        if n == "small":
            n = 1 + ch.pick("pub.small", 64)
        elif n == "mid":
            n = 500 + ch.pick("pub.mid", 3000)
        if a.mod_id == 0 and a.req_id == 0:
            a.learn_id()
        pl = payload_for(self.w.tag_counter + 1, n)
        cut = ch.flag("pub.partial", 1, 10)
        extra = {}
        if ch.flag("pub.oddhdr", 1, 6):
            # the remaining header fields are the sender's business: whatever stands there is forwarded untouched
            extra = dict(recv_time=ch.choose("pub.odd.rt", [0.0, 123.5, -1.0]),
                         remaining_bytes=ch.choose("pub.odd.rem", [0, 77, -1]),
                         is_dynamic=ch.choose("pub.odd.dyn", [0, 1, 7]),
                         reserved=ch.choose("pub.odd.res", [0, 0xDEADBEEF, 1]))
            if self.w.timecode:
                extra.update(utc_seconds=ch.choose("pub.odd.us", [0, 1700000000, 0xFFFFFFFF]),
                             utc_fraction=ch.choose("pub.odd.uf", [0, 999999, 0xFFFFFFFF]))
            if ch.flag("pub.odd.src", 1, 3):
                # ... including a source id that is not the sender's own
                others = [x.mod_id for x in self.actors if x is not a and x.alive and x.mod_id > 0]
                extra["src"] = ch.choose("pub.odd.srcv", others + [0, 55])
            self.res.probes["odd_header_fields"] += 1
        raw = a.frame(t, pl, dest_mod=dm, dest_host=dh, **extra)
        if cut and len(raw) > 1:
            k = 1 + ch.pick("pub.cut", len(raw) - 1)
            a.send_partial(raw, k)
            self.t(f"{a.name} publish type={t} dest={dm}/{dh} n={n} (first {k} bytes, rest withheld)")
        else:
            a.send_raw(raw)
            self.t(f"{a.name} publish type={t} dest={dm}/{dh} n={n}")

    def op_leave(self, a: Actor):
        ch = self.ch
        way = ch.weighted("leave.way", [(3, "disconnect"), (3, "fin"), (3, "rst"), (2, "wfault")])
        if way == "disconnect":
            a.flush_tail()
            a.disconnect()
            if ch.flag("leave.close_after", 1, 2):
                a.leave("fin")
            self.t(f"{a.name} DISCONNECT")
        elif way == "wfault":
            # the peer dies while the manager is writing to it: after k more bytes
            k = ch.weighted("leave.k", [(2, 0), (3, "hdr"), (3, "any")])
            if k == "hdr":
                k = 1 + ch.pick("leave.khdr", self.w.net.hs)
            elif k == "any":
                k = ch.pick("leave.kany", 400)
            ms = a.sock.peer
            ms.fault_after = k
            ms.fault_kind = ch.choose("leave.fkind", ["rst", "fin"])
            self.res.stats["armed_write_fault"] += 1
            self.t(f"{a.name} will die after {k} more bytes written to it ({ms.fault_kind})")
        else:
            a.leave(way)
            self.t(f"{a.name} leaves by {way}")

    def step_some(self):
        k = self.ch.weighted("drv.steps", [(4, 0), (3, 1), (2, 2), (1, 5)])
        for _ in range(k):
            self.w.step()

    def one_op(self):
        ch = self.ch
        prof = self.prof
        live = self.live_actors()
        if len(live) < 2 or (len(self.actors) < 9 and ch.flag("op.connect", 1, 8)):
            self.op_connect()
            return
        for a in live:
            if a.tail and ch.flag("op.flush", 1, 2):
                a.flush_tail()
                self.t(f"{a.name} sends the withheld rest")
        live = [a for a in live if a.alive]
        if not live:
            return
        kind = ch.weighted("op.kind", [(prof["pub_w"], "pub"), (prof["ctl_w"], "ctl"),
                                       (prof["leave_w"], "leave"), (prof["noise_w"], "noise"),
                                       (prof["clock_w"], "clock")])
        a = ch.choose("op.actor", live)
        if kind == "pub":
            self.op_publish(a)
        elif kind == "ctl":
            self.op_control(a)
        elif kind == "leave":
            self.op_leave(a)
        elif kind == "noise":
            self.op_noise(a)
        else:
            dt = ch.choose("clock.dt", [0.05, 0.85, 0.95, 1.05, 4.9, 5.1, 12.0])
            self.w.advance(dt)
            self.t(f"clock +{dt}")

    # ------------------------------------------------------------------ run
    def run(self) -> RunResult:
        res = self.res
        try:
            self.setup()
            if self.forced and self.forced.get("table") == "c14":
                self.c14_case(self.forced)
            elif self.forced and self.forced.get("table") == "long_stream":
                self.long_stream(self.forced)
            elif self.forced and self.forced.get("table") == "dyn_pool_full":
                self.dyn_pool_full(self.forced)
            else:
                for _ in range(self.n_ops):
                    self.one_op()
                    self.step_some()
            self.finish()
            self.oracles()
        except ManagerCrashed as e:
            res.crash = e.signature()
            res.crash_detail = str(e)
            res.crash_chain = e.chain
            self.t(f"MANAGER CRASHED: {e}")
        finally:
            self.collect()
            self.w.teardown()
        return res

    def dyn_pool_full(self, f):
        """every manager-assigned id is held; further requests for one are refused.  Whatever the manager writes
        on those connections before it closes them is a stream like any other"""
        ch = self.ch
        w = self.w
        self.universe = [1000]
        w.quiesce_limit = 5000
        holders = []
        for i in range(100):
            a = self.new_actor(f"h{i}")
            a.protected = True
            a.open()
            a.handshake("v2v1", req_id=0, allow_multiple=False, name=b"", pid=100 + i)
            holders.append(a)
            if i % 10 == 9:
                w.quiesce()
        w.quiesce()
        for i in range(f.get("extra", 3)):
            a = self.new_actor(f"x{i}")
            a.open()
            a.handshake(ch.choose("pool.proto", ["v2v1", "v1"]), req_id=0, allow_multiple=False, name=b"", pid=900 + i)
            a.subscribe(1000)
            w.quiesce()
        # one holder leaves, a newcomer is served again
        holders[ch.pick("pool.leaver", 100)].leave("fin")
        w.quiesce()
        a = self.new_actor("late")
        a.open()
        a.handshake("v2v1", req_id=0, allow_multiple=False, name=b"", pid=999)
        w.quiesce()
        self.res.probes["dynamic_pool_full"] += 1

    def long_stream(self, f):
        """a long-lived connection: tens of thousands of frames to one subscriber (sequence numbers
        must keep counting; 32767 and 65535 are crossed)"""
        ch = self.ch
        w = self.w
        w.max_rounds = 10 ** 7
        T = 1000
        self.universe = [T]
        sub = self.new_actor("S")
        sub.open()
        sub.handshake("v2v1", req_id=30, name=b"")
        sub.subscribe(T)
        pub = self.new_actor("P")
        pub.open()
        pub.handshake("v2v1", req_id=31, name=b"")
        w.quiesce()
        n = f["n"]
        self.t(f"P publishes {n} frames of type {T} to one subscriber; S sends a control frame every 5000")
        for i in range(n):
            pub.send_raw(pub.frame(T, b""))
            if i % 5000 == 4999:
                sub.subscribe(T)           # acks are numbered in the same sequence
                w.quiesce(limit=10 ** 6)
        w.quiesce(limit=10 ** 6)
        self.res.probes[f"long_stream_{n}"] += 1

    def c14_case(self, f):
        """one cell of the finite C14 table: k subscribers, each writable / not writable / failing on
        write, one of them possibly a logger; a publisher sends while that holds"""
        ch = self.ch
        w = self.w
        T = 1000
        self.universe = [T, 1001]
        pub = self.new_actor("P")
        pub.open()
        pub.handshake("v2v1", req_id=20, name=b"pub")
        subs = []
        for i, st in enumerate(f["states"]):
            a = self.new_actor(f"S{i}")
            a.open()
            a.handshake("v2v1", req_id=30 + i, logger=(f["logger"] == i), name=b"")
            a.subscribe(ALL if ch.flag("c14.suball", 1, 4) else T)
            if ch.flag("c14.notices", 1, 3):
                a.subscribe(C.MT_FAILED_MESSAGE)
            subs.append(a)
        w.quiesce()
        blocked = {subs[i].conn for i, st in enumerate(f["states"]) if st == 1}
        for i, st in enumerate(f["states"]):
            if st == 2:
                ms = subs[i].sock.peer
                ms.fault_after = ch.choose("c14.k", [0, 1, 47, 48, 49, 60])
                ms.fault_kind = ch.choose("c14.fk", ["rst", "fin"])
                self.res.stats["armed_write_fault"] += 1
        w.force_writable = lambda rnd, cands: {s.idx for s in cands if s.idx not in blocked}
        self.t(f"table case: states={f['states']} logger={f['logger']} (0 writable, 1 not writable, 2 write fails)")
        n = 1 + ch.pick("c14.npub", 2)
        for _ in range(n):
            dm = ch.weighted("c14.dest", [(4, 0), (1, 30), (1, 31)])
            raw = pub.frame(T, payload_for(w.tag_counter + 1, ch.pick("c14.len", 40)), dest_mod=dm)
            pub.send_raw(raw)
            self.t(f"P publish type={T} dest={dm}")
        w.quiesce()
        self.res.enumerated.setdefault("c14_table", set()).add(f"{f['states']}/{f['logger']}")
        w.force_writable = None

    def finish(self):
        w = self.w
        for _ in range(6):
            for a in self.actors:
                if a.tail:
                    a.flush_tail()
            r = w.quiesce()
            if r != -1:
                break
        # a few idle rounds so that pending notices / periodic messages flow
        for _ in range(2):
            w.step()
        w.quiesce()

    def collect(self):
        res, w = self.res, self.w
        net = w.net
        res.stats.update({k: v for k, v in net.stats.items() if v})
        res.digest = w.digest()
        res.sim_seconds = w.clock.advanced
        res.round_sigs = set(net.round_sigs)
        res.n_choices = len(self.ch.trace)
        st = net.stats
        res.nontrivial = bool(st["multi_ready_rounds"] or st["write_fail"] or st["notwritable"]
                              or st["midframe_blocks"] or st["fin"] or st["rst"])
        if st["multi_ready_rounds"]:
            res.probes["multi_ready_round"] += 1
        if st["midframe_blocks"]:
            res.probes["midframe_block"] += 1
        if st["logger_wait"]:
            res.probes["logger_wait"] += 1
        if st["write_fail"]:
            res.probes["write_fail"] += 1
        if st["write_void"]:
            res.probes["write_void"] += 1
        if st["notwritable"]:
            res.probes["not_writable"] += 1

    # ------------------------------------------------------------------ oracles
    def oracles(self):
        w = self.w
        model = PubSubModel(w.net)
        model.run()
        self.model = model
        self.res.model_states = set(model.states_seen)
        for an in model.anomalies:
            self.res.add(self.prop, "model_anomaly", an)
        by_conn = {a.conn: a for a in self.actors if a.sock is not None}
        self.by_conn = by_conn
        self.oracle_wrongly_closed(model, by_conn)
        if self.prop == "C01":
            self.oracle_c01(model, by_conn)
        elif self.prop == "C05":
            self.oracle_c05(model, by_conn)
        elif self.prop == "C19":
            self.oracle_c19(model, by_conn)
        elif self.prop == "C14":
            self.oracle_c01(model, by_conn, prop="C14", clause_prefix="others_still_receive.")
            self.oracle_c14(model, by_conn)

    def received_tagged(self, a: Actor):
        frames, left = a.received()
        return [(h, p) for (h, p) in frames if h.send_time >= TAG_BASE], left

    def oracle_wrongly_closed(self, model, by_conn):
        """Every statement presupposes that a client which behaves stays connected: the manager may close a
        connection only when its peer has left (EOF / reset read, write failed or swallowed), said DISCONNECT,
        was refused at connect, or declared a payload length outside the manager's bounds."""
        net = self.w.net
        res = self.res
        ended = defaultdict(list)
        for s_, c_, _how in net.ends:
            ended[c_].append(s_)
        for s_, c_ in net.voids:
            ended[c_].append(s_)
        bad_len = {fr.conn for fr in net.reads if fr.hdr.num_data_bytes < 0 or fr.hdr.num_data_bytes > 1024 ** 2}
        for seq, conn in net.closes:
            m = model.conns.get(conn)
            if m is None:
                continue
            if any(s_ <= seq for s_ in ended.get(conn, ())):
                continue
            if m.removed_how in ("disconnect", "refused") and m.removed_seq is not None and m.removed_seq <= seq:
                continue
            if conn in bad_len:
                continue
            a = by_conn.get(conn)
            if a is None:
                continue
            if not a.alive:
                ds = getattr(a, "death_seq", None)
                if ds is None or ds <= seq:
                    continue
            res.add(self.prop, "wrongly_closed",
                    f"the manager closed the connection of {a.name} (conn {conn}, id {m.mod_id}) although the client was "
                    f"alive, had not asked to leave and had sent nothing that permits it", sig="wrongly_closed")
        res.probes["closes_judged"] += len(net.closes)

    def oracle_c01(self, model, by_conn, prop="C01", clause_prefix=""):
        res = self.res
        w = self.w
        expected: Dict[int, list] = defaultdict(list)
        n_deliv = 0
        for d in model.deliveries:
            sender = model.conns[d.sender]
            if not sender.connected:
                continue   # outside the statement
            tag = d.fr.hdr.send_time
            sent = w.sent_by_tag.get(tag)
            if sent is None:
                continue
            if key_of(sent.hdr, sent.payload) != key_of(d.fr.hdr, d.fr.payload):
                res.add(prop, "sim_internal", f"manager read {d.fr} differs from what was sent")
                continue
            if not d.valid_dest:
                res.probes["invalid_dest"] += 1
            if d.dropped:
                res.probes["drop_branch"] += 1
            if d.logger_waited:
                res.probes["logger_waited"] += 1
            if len(d.recipients) > 1:
                res.probes["fanout>1"] += 1
            if d.sender in d.recipients:
                res.probes["self_delivery"] += 1
            k = key_of(sent.hdr, sent.payload)
            for c in d.recipients:
                expected[c].append((k, d))
                n_deliv += 1
        res.probes["deliveries"] += n_deliv
        for conn, a in by_conn.items():
            got, _left = self.received_tagged(a)
            gotc = Counter(key_of(h, p) for h, p in got)
            expc = Counter(k for k, _d in expected.get(conn, ()))
            msock = a.sock.peer
            relaxed = (not a.alive) or msock.write_failed or msock.closed
            if relaxed:
                # a peer that died / whose connection failed: it may have missed a suffix, but
                # must never get anything it was not due
                extra = gotc - expc
                if extra:
                    k = next(iter(extra))
                    res.add(prop, clause_prefix + "extra_delivery",
                            f"{a.name}(conn {conn}) received type={k[0]} tag={k[1]} dest={k[6]} "
                            f"x{extra[k]} that the model does not deliver to it")
                continue
            if gotc != expc:
                missing = expc - gotc
                extra = gotc - expc
                if missing:
                    k = next(iter(missing))
                    # modified?
                    mod = [g for g in extra if g[1] == k[1]]
                    if mod:
                        diff = [i for i in range(len(k)) if mod[0][i] != k[i]]
                        res.add(prop, clause_prefix + "modified",
                                f"{a.name}(conn {conn}) received tag={k[1]} with fields {diff} changed")
                    else:
                        res.add(prop, clause_prefix + "missing_delivery",
                                f"{a.name}(conn {conn}, id {model.conns[conn].mod_id}) did not receive "
                                f"type={k[0]} tag={k[1]} dest={k[6]}/{k[4]} x{missing[k]}")
                elif extra:
                    k = next(iter(extra))
                    res.add(prop, clause_prefix + ("duplicate" if expc.get(k) else "extra_delivery"),
                            f"{a.name}(conn {conn}, id {model.conns[conn].mod_id if conn in model.conns else '?'}) "
                            f"received type={k[0]} tag={k[1]} dest={k[6]} x{extra[k]} beyond the model")

    # -- C05 -------------------------------------------------------------------------
    def oracle_c05(self, model, by_conn):
        res = self.res
        tc = self.w.timecode
        per_recv_tags: Dict[int, list] = {}
        for conn, a in by_conn.items():
            frames, left = a.received()
            msock = a.sock.peer
            # (a) whole frames, msg_count 1,2,3...
            for i, (h, p) in enumerate(frames):
                if h.msg_count != i + 1:
                    res.add("C05", "seqno", f"{a.name}(conn {conn}) frame #{i + 1} type={h.msg_type} "
                                            f"carries msg_count={h.msg_count}")
                    break
            if left and not (msock.write_failed or not a.alive):
                res.add("C05", "partial_frame", f"{a.name}(conn {conn}) stream ends with {len(left)} "
                                                f"stray bytes and no write failure was injected")
            if left:
                res.probes["truncated_final_frame"] += 1
            tags = [h.send_time for h, _p in frames if h.send_time >= TAG_BASE]
            per_recv_tags[conn] = tags
            kinds = {h.msg_type for h, _ in frames}
            if C.MT_ACKNOWLEDGE in kinds and any(t >= TAG_BASE for t in tags):
                res.probes["acks_mixed_with_data"] += 1
            if kinds & {C.MT_TIMING_MESSAGE, C.MT_MESSAGE_TRAFFIC, C.MT_ACTIVE_CLIENTS}:
                res.probes["periodic_on_stream"] += 1
            if C.MT_FAILED_MESSAGE in kinds:
                res.probes["notice_on_stream"] += 1
        # (b) per sender FIFO at each receiver
        w = self.w
        for conn, tags in per_recv_tags.items():
            last: Dict[str, float] = {}
            for t in tags:
                s = w.sent_by_tag.get(t)
                if s is None:
                    continue
                nm = s.actor.name
                if nm in last and last[nm] >= t:
                    res.add("C05", "sender_fifo", f"conn {conn} received tag {t} from {nm} after {last[nm]}")
                    break
                last[nm] = t
        # (c) any two receivers agree on the relative order of common messages
        conns = sorted(per_recv_tags)
        for i in range(len(conns)):
            ti = per_recv_tags[conns[i]]
            si = set(ti)
            if len(ti) != len(si):
                continue    # duplicates are C01's business
            for j in range(i + 1, len(conns)):
                tj = per_recv_tags[conns[j]]
                sj = set(tj)
                common = si & sj
                if len(common) < 2:
                    continue
                res.probes["common_pairs_checked"] += 1
                a = [t for t in ti if t in common]
                b = [t for t in tj if t in common]
                if a != b and len(tj) == len(sj):
                    res.add("C05", "cross_receiver_order",
                            f"conns {conns[i]} and {conns[j]} saw common messages in different orders")

    # -- C19 -------------------------------------------------------------------------
    def oracle_c19(self, model, by_conn):
        import bisect
        res = self.res
        net = self.w.net
        read_seqs = [fr.seq for fr in net.reads]
        acks = model.acks_by_conn
        lost = defaultdict(list)   # conn -> seqs of failed / void writes
        for s, c, _k, _e, _mt, _tag in net.wfails:
            lost[c].append(s)
        for s, c in net.voids:
            lost[c].append(s)

        def window(fr):
            k = bisect.bisect_right(read_seqs, fr.seq)
            return fr.done_seq, (read_seqs[k] if k < len(read_seqs) else float("inf"))

        def count(conn, lo, hi, dest=None):
            n = 0
            bad = None
            for wfr in acks.get(conn, ()):
                if lo < wfr.seq < hi:
                    n += 1
                    if dest is not None and wfr.hdr.dest_mod_id != dest:
                        bad = wfr.hdr.dest_mod_id
            return n, bad

        def lossy(conn, lo, hi):
            return any(lo < s < hi for s in lost.get(conn, ()))

        # group handshake frames of one connection into one unit
        i = 0
        ctrls = model.controls
        done_units = set()
        for ci, c in enumerate(ctrls):
            m = model.conns.get(c.conn)
            lo, hi = window(c.fr)
            if c.kind == "connect":
                if ci in done_units:
                    continue
                # collect following connect frames of the same conn that belong to this handshake
                unit = [c]
                for cj in range(ci + 1, len(ctrls)):
                    o = ctrls[cj]
                    if o.conn != c.conn:
                        continue
                    if o.kind == "connect" and o.decision == IGNORED and len(unit) < 2 \
                            and unit[0].fr.hdr.msg_type == C.MT_CONNECT_V2 \
                            and o.fr.hdr.msg_type == C.MT_CONNECT and unit[0].decision != IGNORED:
                        unit.append(o)
                        done_units.add(cj)
                    break
                first = unit[0]
                if first.decision == DONT_CARE:
                    continue
                total = 0
                wrong = None
                anyloss = False
                for u in unit:
                    l2, h2 = window(u.fr)
                    n, bad = count(u.conn, l2, h2, dest=first.mod_id if (first.decision == MUST_ACCEPT and first.mod_id not in (None, -1)) else None)
                    total += n
                    wrong = wrong if bad is None else bad
                    anyloss = anyloss or lossy(u.conn, l2, h2)
                want = 1 if first.decision == MUST_ACCEPT else 0
                if first.decision == MUST_ACCEPT and model.conns[c.conn].is_logger:
                    ok = total in (1, 2)
                else:
                    ok = total == want
                if not ok and not (anyloss and total < want):
                    res.add("C19", "handshake_ack" if want else "unexpected_ack",
                            f"conn {c.conn} handshake ({first.decision}, req={first.req}) was answered by {total} "
                            f"ACKNOWLEDGE frames, expected {want}")
                if wrong is not None:
                    res.add("C19", "ack_address", f"conn {c.conn} handshake ACK addressed to {wrong}, "
                                                  f"module id is {first.mod_id}")
                if first.decision == MUST_ACCEPT:
                    res.probes["handshake_checked"] += 1
                    self._logger_copies(res, first, unit, window, count, lossy, model)
                else:
                    res.probes["refused_or_ignored_connect_checked"] += 1
                continue
            if m is None:
                continue
            # a sender that has not (yet) completed a handshake is acknowledged like any other; its
            # module id is still 0
            pre_handshake = m.connect_seq is None or m.connect_seq > c.fr.seq
            if pre_handshake:
                res.probes["pre_handshake_control_checked"] += 1
                if c.ack_expected:
                    c.mod_id = 0
            n, bad = count(c.conn, lo, hi, dest=c.mod_id if (c.ack_expected and c.mod_id not in (None, -1)) else None)
            if c.ack_expected:
                if m.is_logger:
                    ok = n in (1, 2)
                else:
                    ok = n == 1
                if not ok and not (lossy(c.conn, lo, hi) and n < 1):
                    res.add("C19", "missing_ack" if n == 0 else "duplicate_ack",
                            f"conn {c.conn} {c.kind} frame type={c.fr.hdr.msg_type} got {n} ACKs")
                if bad is not None:
                    res.add("C19", "ack_address", f"conn {c.conn} ACK addressed to {bad}, sender id is {c.mod_id}")
                res.probes["acked_control_checked"] += 1
                self._logger_copies(res, c, [c], window, count, lossy, model)
            elif c.ack_expected is False:
                if n:
                    res.add("C19", "unexpected_ack",
                            f"conn {c.conn} {c.kind} frame type={c.fr.hdr.msg_type} was acknowledged {n}x")
                # nor may any logger see an ack in this window
                for lg in c.loggers:
                    nl, _ = count(lg, lo, hi)
                    if nl:
                        res.add("C19", "unexpected_ack_copy",
                                f"logger conn {lg} got {nl} ACK copies for {c.kind} frame type={c.fr.hdr.msg_type}")
                res.probes["unacked_frame_checked"] += 1

    def _logger_copies(self, res, first, unit, window, count, lossy, model):
        # if the sender's own connection failed while its request was being handled there may be
        # no acknowledgement at all (nothing left to acknowledge), hence no copies either
        sender_lost = False
        sm = model.conns.get(first.conn)
        for u in unit:
            l2, h2 = window(u.fr)
            if lossy(first.conn, l2, h2) or (sm is not None and sm.removed_seq is not None
                                             and l2 < sm.removed_seq < h2 and sm.removed_how == "wfail"):
                sender_lost = True
        known_id = first.mod_id if first.mod_id not in (None, -1) else None
        for lg in first.loggers:
            if lg == first.conn:
                continue
            lm = model.conns.get(lg)
            total = 0
            anyloss = False
            gone = False
            for u in unit:
                l2, h2 = window(u.fr)
                n, bad = count(lg, l2, h2, dest=known_id)
                total += n
                anyloss = anyloss or lossy(lg, l2, h2)
                if lm is not None and lm.removed_seq is not None and lm.removed_seq < h2:
                    gone = True
                if bad is not None:
                    res.add("C19", "ack_copy_address", f"logger conn {lg} got ACK copy addressed to {bad}")
            if total != 1 and not ((anyloss or gone or sender_lost) and total < 1):
                res.add("C19", "logger_copy", f"logger conn {lg} got {total} copies of the ACK for conn "
                                              f"{first.conn} frame type={first.fr.hdr.msg_type}")
            else:
                res.probes["logger_copy_checked"] += 1

    # -- C14 -------------------------------------------------------------------------
    def oracle_c14(self, model, by_conn):
        import bisect
        res = self.res
        net = self.w.net
        mon = self.monitor
        if mon is None or not mon.alive:
            return
        mconn = mon.conn
        monm = model.conns.get(mconn)
        if monm is None or monm.connect_seq is None:
            return
        # notices the monitor saw, attributed by the embedded header's tag
        notices = defaultdict(list)     # tag -> [FailedMsg]
        forbidden = []
        for wfr in mon.sock.peer.tx_frames:
            if wfr.hdr.msg_type != C.MT_FAILED_MESSAGE or wfr.hdr.src_mod_id != 0:
                continue
            if wfr.hdr.send_time >= TAG_BASE:
                continue   # a client published something of type FAILED_MESSAGE
            if len(wfr.payload) < 64:
                continue
            fm = C.unpack_failed_message(wfr.payload)
            if fm.hdr.msg_type == C.MT_FAILED_MESSAGE or fm.hdr.msg_type in C.LOG_TYPES:
                forbidden.append(fm)
            if fm.hdr.send_time >= TAG_BASE:
                notices[fm.hdr.send_time].append(fm)
        for fm in forbidden:
            res.add("C14", "notice_about_notice", f"a FAILED_MESSAGE about embedded type {fm.hdr.msg_type} "
                                                  f"(dest {fm.dest_mod_id}) was published")
        sub_since = None
        for c in model.controls:
            if c.conn == mconn and c.kind == "sub":
                sub_since = c.fr.done_seq
                break
        if sub_since is None:
            return
        seen_tags = set()
        for d in model.deliveries:
            sender = model.conns[d.sender]
            if not sender.connected or not d.valid_dest or d.fr.done_seq < sub_since:
                continue
            h = d.fr.hdr
            tag = h.send_time
            if tag in seen_tags:
                continue
            seen_tags.add(tag)
            exempt = h.msg_type == C.MT_FAILED_MESSAGE or h.msg_type in C.LOG_TYPES
            must = Counter()
            may = Counter()

            def mid_then(c_, _seq=d.fr.done_seq):
                # the id the manager knew that connection by when it handled this message (a module that subscribed
                # before connecting is module 0 until its handshake has been processed)
                st_ = model.state_at(c_, _seq)
                return st_[2] if st_ is not None else model.conns[c_].mod_id
            for c in d.dropped:
                must[mid_then(c)] += 1
            for c in d.wfailed:
                if c in d.recipients:
                    must[mid_then(c)] += 1
            # silent either way: subscribed, not writable, but excluded by the destination filter
            W = net.wprobe.get(d.fr.round, frozenset())
            for c in d.sub_any:
                if c not in d.eligible and c not in W:
                    may[mid_then(c)] += 1
            got = Counter(fm.dest_mod_id for fm in notices.get(tag, ()))
            if d.logger_waited:
                res.probes["logger_waited"] += 1
            if exempt:
                if got:
                    res.add("C14", "notice_about_notice", f"notice for undeliverable type {h.msg_type}")
                continue
            if must:
                res.probes["notices_expected"] += sum(must.values())
            for fm in notices.get(tag, ()):
                eh = fm.hdr
                if (eh.msg_type, eh.src_mod_id, eh.dest_mod_id, eh.src_host_id, eh.dest_host_id) != \
                        (h.msg_type, h.src_mod_id, h.dest_mod_id, h.src_host_id, h.dest_host_id):
                    res.add("C14", "notice_header", f"notice for tag {tag} embeds type/src/dest "
                                                    f"{(eh.msg_type, eh.src_mod_id, eh.dest_mod_id)} != original "
                                                    f"{(h.msg_type, h.src_mod_id, h.dest_mod_id)}")
            if -1 in must:
                # unknown dynamic id: let it stand for any one module named in an otherwise unexplained notice
                spare = got - (must - Counter({-1: must[-1]})) - may
                for mid2 in list(spare):
                    while must.get(-1, 0) > 0 and spare[mid2] > 0:
                        must[-1] -= 1
                        spare[mid2] -= 1
                        must[mid2] += 1
                must += Counter()
            missing = must - got
            if missing:
                mid = next(iter(missing))
                why = "not writable" if any(mid_then(c) == mid for c in d.dropped) else "write failed"
                res.add("C14", "missing_notice",
                        f"message type={h.msg_type} tag={tag}: subscriber id {mid} ({why}) was skipped but "
                        f"{got.get(mid, 0)} of {must[mid]} FAILED_MESSAGE notices naming it reached the logger monitor")
            extra = got - must - may
            # a tolerated module whose dynamic id could not be learnt (no acknowledgement reached it or any logger)
            spare_unknown = (may - got).get(-1, 0) if -1 in may else 0
            for mid2 in list(extra):
                while spare_unknown > 0 and extra[mid2] > 0:
                    extra[mid2] -= 1
                    spare_unknown -= 1
            extra += Counter()
            if extra:
                mid = next(iter(extra))
                isl = any(mid_then(c) == mid and model.conns[c].is_logger for c in d.recipients)
                res.add("C14", "unsound_notice" if not isl else "logger_skipped",
                        f"message type={h.msg_type} tag={tag}: {extra[mid]} notice(s) name module {mid} which was "
                        f"{'a waited-for logger' if isl else 'not an undeliverable subscriber'}")
        self.oracle_c14_manager_originated(model, mon, sub_since)
        # a logger that was not writable must have been waited for
        lw = {(c) for (_s, c) in net.logger_waits}
        for d in model.deliveries:
            for c in d.logger_waited:
                if c not in lw:
                    res.add("C14", "logger_not_waited", f"logger conn {c} was not writable and no wait was seen")


def _oracle_c14_manager_originated(self, model, mon, sub_since):
    """Messages the manager originates itself (CLIENT_CLOSED, CLIENT_INFO, ACTIVE_CLIENTS, TIMING, TRAFFIC,
    acknowledgement copies) are reportable like any other when they cannot be handed to a subscriber.
    Checked per round, and only for rounds in which the manager refreshed its writable snapshot (in other rounds
    it works from a stale snapshot, which no statement covers)."""
    res = self.res
    net = self.w.net
    exempt = set(C.LOG_TYPES) | {C.MT_FAILED_MESSAGE}
    expected = defaultdict(Counter)     # round -> Counter((type, module id))
    observed = defaultdict(Counter)
    optional = defaultdict(Counter)
    import bisect
    read_seqs_ = sorted(fr.seq for fr in net.reads)
    blocked_of = {}
    for ev in net.events:
        if ev[1] == "ROUND_WRITABLE":
            blocked_of[ev[2]] = set(ev[3])
    for wfr in mon.sock.peer.tx_frames:
        h = wfr.hdr
        if wfr.seq <= sub_since or wfr.round not in net.probe_rounds or wfr.seq < net.probe_seq.get(wfr.round, 0):
            continue            # (before the refresh the manager still works from the previous round's snapshot)
        if h.src_mod_id != 0 or h.send_time >= TAG_BASE:
            continue
        if h.msg_type == C.MT_FAILED_MESSAGE:
            if len(wfr.payload) >= 64:
                fm = C.unpack_failed_message(wfr.payload)
                if fm.hdr.send_time < TAG_BASE and fm.hdr.src_mod_id == 0:
                    observed[wfr.round][(fm.hdr.msg_type, fm.dest_mod_id)] += 1
            continue
        if h.msg_type in exempt or (h.msg_type == C.MT_ACKNOWLEDGE and h.num_data_bytes == 0):
            continue
        # M: a manager-originated, reportable message; who was subscribed and could not take it?
        blocked = blocked_of.get(wfr.round, set())
        for conn in model.conns:
            if conn == mon.conn:
                continue
            st = model.state_at(conn, wfr.seq)
            if st is None:
                continue
            alive, subs, mod_id, is_logger = st
            if not alive:
                # a connection whose connect request is being refused right now (M is a by-product of handling that
                # very request): it had subscribed before connecting and may still be served -- and named, by its
                # old or by the requested id -- or not
                m_ = model.conns[conn]
                if m_.removed_how == "refused" and m_.removed_seq is not None and m_.removed_seq < wfr.seq:
                    k_ = bisect.bisect_right(read_seqs_, m_.removed_seq)
                    nxt_ = read_seqs_[k_] if k_ < len(read_seqs_) else float("inf")
                    pre_ = model.state_at(conn, m_.removed_seq)
                    if wfr.seq < nxt_ and pre_ is not None and pre_[0] and not pre_[3] \
                            and (h.msg_type in pre_[1] or ALL in pre_[1]) and conn in blocked:
                        optional[wfr.round][(h.msg_type, m_.mod_id)] += 1
                        if pre_[2] != m_.mod_id:
                            optional[wfr.round][(h.msg_type, pre_[2])] += 1
                continue
            if is_logger:
                continue
            if not (h.msg_type in subs or ALL in subs):
                continue
            if conn in blocked:
                expected[wfr.round][(h.msg_type, mod_id)] += 1
    # write failures while a manager-originated, reportable frame was being written
    round_of_seq = []
    for ev in net.events:
        if ev[1] == "MGR_SELECT":
            round_of_seq.append((ev[0], ev[2]))
    import bisect
    seqs = [x[0] for x in round_of_seq]
    for (s_, conn, _k, _e, mt, tag) in net.wfails:
        if mt is None or mt in exempt or (tag is not None and tag >= TAG_BASE) or s_ <= sub_since:
            continue
        i = bisect.bisect_right(seqs, s_) - 1
        if i < 0:
            continue
        rnd = round_of_seq[i][1]
        if rnd not in net.probe_rounds or s_ < net.probe_seq.get(rnd, 0):
            continue
        st = model.state_at(conn, s_)
        if st is None:
            continue
        if mt == C.MT_ACKNOWLEDGE and not st[3]:
            # the acknowledgement of a request, written to the requester itself (acknowledgements are never
            # routed to ordinary subscribers): the requester is not a subscriber of it, so the statement does not
            # demand a notice (the manager sends one: allowed)
            optional[rnd][(mt, st[2])] += 1
            continue
        expected[rnd][(mt, st[2])] += 1
    for rnd in set(expected) | set(observed):
        e, o = Counter(expected.get(rnd, Counter())), Counter(observed.get(rnd, Counter()))
        if e:
            res.probes["mgr_originated_notices_expected"] += sum(e.values())
        # matching order: exact demanded, exact allowed, then a module whose dynamic id could not be learnt (its
        # own acknowledgement was lost and no logger saw a copy), which matches any id: demanded first, allowed last
        opt = Counter(optional.get(rnd, Counter()))
        common = e & o
        e -= common
        o -= common
        common = o & opt
        o -= common
        opt -= common
        for pool in (e, opt):
            for (t, mid), n in list(pool.items()):
                if mid == -1:
                    for (t2, mid2) in list(o):
                        n2 = o[(t2, mid2)]
                        if t2 == t and n > 0 and n2 > 0:
                            k = min(n, n2)
                            pool[(t, mid)] -= k
                            o[(t2, mid2)] -= k
                            n -= k
        e += Counter()
        o += Counter()
        missing = e
        extra = o
        if not missing and not extra:
            continue
        if missing:
            (t, mid), n = next(iter(missing.items()))
            res.add("C14", "missing_notice_manager_msg",
                    f"round {rnd}: a manager-originated message of type {t} could not be handed to subscriber id {mid} "
                    f"({n} time(s)) and no FAILED_MESSAGE naming it reached the logger monitor",
                    sig="missing_notice_manager_msg")
        elif extra:
            (t, mid), n = next(iter(extra.items()))
            res.add("C14", "unsound_notice_manager_msg",
                    f"round {rnd}: {n} FAILED_MESSAGE notice(s) about a manager-originated message of type {t} name module "
                    f"{mid}, which was not an undeliverable subscriber of it", sig="unsound_notice_manager_msg")


PubSubRun.oracle_c14_manager_originated = _oracle_c14_manager_originated


def run(choices, prop: str, overrides=None, forced=None) -> RunResult:
    return PubSubRun(choices, prop, overrides, forced).run()


def c05_det_cases(tier):
    return [dict(table="long_stream", n=33000), dict(table="long_stream", n=66000), dict(table="dyn_pool_full", extra=3)]


def c14_det_cases(tier):
    import itertools
    cases = []
    for k in (1, 2, 3, 4):
        for states in itertools.product((0, 1, 2), repeat=k):
            for logger in [None] + list(range(k)):
                cases.append(dict(table="c14", states=list(states), logger=logger))
    if tier == "quick":
        cases = cases[::4]
    return cases
