"""Harness `hostile` (C03): no client can take the manager down."""
from __future__ import annotations

import logging
import os
import struct
from collections import Counter

from sim import codec as C
from sim.actors import Actor, TAG_BASE
from sim.world import World, ManagerCrashed
from sim.baton import TaskHung
from .base import RunResult

INT32 = [0, 1, -1, -(2 ** 31), 2 ** 31 - 1, 9999, 10000, 65535, 65536, 2 ** 20, 2 ** 20 + 1, 2 ** 31 - 2]
INT16 = [0, 1, -1, 100, 101, 199, 200, 201, 32767, -32767, -32768, 99, 5, 6]
UINT32 = [0, 1, 2 ** 31, 2 ** 32 - 1]
DOUBLES = [0.0, -1.0, float("inf"), float("-inf"), float("nan"), 1e308, 5e-324]

HDR_FIELDS = [
    ("msg_type", INT32), ("msg_count", INT32), ("send_time", DOUBLES), ("recv_time", DOUBLES),
    ("src_host_id", INT16), ("src_mod_id", INT16), ("dest_host_id", INT16), ("dest_mod_id", INT16),
    ("num_data_bytes", INT32), ("remaining_bytes", INT32), ("is_dynamic", INT32), ("reserved", UINT32),
]

FRAME_KINDS = ["data", "connect", "connect_v2", "subscribe", "unsubscribe", "pause", "resume",
               "disconnect", "set_name", "module_ready", "ack", "failed_message", "timing", "log"]

STAGES = ["fresh", "connected", "subscribed", "early_sub"]

NAMES = [b"rig\\[/]", b"a\\[/b]", b"[bold]x[/bold]", b"[/]", b"[link=x]y", b"\\", b"[red", b"{0}%s%d", b"", b"plain", b"\xff" * 32, b"\xff" * 31, b"\x80abc", b"caf\xc3\xa9", b"x" * 32, b"\x00" * 32,
         b"message_manager", b"a\x00\xff\xfe", bytes(range(1, 33))]


def base_frame(kind: str, a: Actor, ch):
    """(msg_type, payload) of an otherwise valid frame of this kind"""
    if kind == "data":
        return 1000, bytes(ch.pick("host.datalen", 40))
    if kind == "connect":
        return C.MT_CONNECT, C.pack_connect(0, 0)
    if kind == "connect_v2":
        return C.MT_CONNECT_V2, C.pack_connect_v2(0, 0, 0, a.req_id, 77, b"off")
    if kind == "subscribe":
        return C.MT_SUBSCRIBE, C.pack_sub(1000)
    if kind == "unsubscribe":
        return C.MT_UNSUBSCRIBE, C.pack_sub(1000)
    if kind == "pause":
        return C.MT_PAUSE_SUBSCRIPTION, C.pack_sub(1000)
    if kind == "resume":
        return C.MT_RESUME_SUBSCRIPTION, C.pack_sub(1000)
    if kind == "disconnect":
        return C.MT_DISCONNECT, b""
    if kind == "set_name":
        return C.MT_CLIENT_SET_NAME, C.pack_set_name(b"nm")
    if kind == "module_ready":
        return C.MT_MODULE_READY, C.pack_module_ready(9)
    if kind == "ack":
        return C.MT_ACKNOWLEDGE, b""
    if kind == "failed_message":
        return C.MT_FAILED_MESSAGE, bytes(64)
    if kind == "timing":
        return C.MT_TIMING_MESSAGE, bytes(64)
    if kind == "log":
        return C.MT_RTMA_LOG_ERROR, bytes(1936)
    raise KeyError(kind)


class HostileRun:
    def __init__(self, choices, forced=None):
        self.ch = choices
        self.forced = forced       # a deterministic case to execute first (fault enumeration)
        self.res = RunResult()
        self.w = None
        self.offenders = []
        self.n_act = 0

    def t(self, s):
        self.res.trace.append(f"t={self.w.clock.now:.3f} {s}")

    # ------------------------------------------------------------------ setup
    def setup(self):
        ch = self.ch
        timecode = bool(ch.pick("cfg.timecode", 2))
        timing = ch.pick("cfg.timing_off", 4) != 3
        lvl = ch.weighted("cfg.loglevel", [(3, logging.ERROR), (2, logging.INFO), (2, logging.DEBUG)])
        self.res.config = dict(timecode=timecode, timing=timing, loglevel=lvl, forced=self.forced)
        console = ch.flag("cfg.console", 1, 5)       # the rich console handler renders every record
        self.res.config["console"] = console
        self.w = World(ch, timecode=timecode, log_level=lvl, send_msg_timing=timing,
                       p_notwritable=(0, 1), console=console)
        if console:
            self.res.probes["console_handler_on"] += 1
        self.w.patch()
        self.w.start_manager()
        w = self.w
        w.quiesce_limit = 6000      # (a burst of 300 connections takes about a thousand rounds to be worked off)
        if self.forced and self.forced.get("wall_s"):
            # a heavy deterministic case: one manager step (a sweep over 300 x 300 deliveries) may take long
            w.baton.HANG_WALL_S = float(self.forced["wall_s"])
        # sending is not free: with hundreds of connections a broadcast takes a noticeable part of a timer period
        w.write_cost = ch.choose("cfg.write_cost", [0.0, 0.0, 2e-5, 1e-3, 4e-3])
        self.res.config["write_cost"] = w.write_cost
        # bystanders
        self.mon = Actor(w, "mon")
        self.mon.open()
        self.mon.handshake("v2v1", req_id=90, logger=not ch.flag("cfg.mon_plain", 1, 4), name=b"monitor")
        self.mon.subscribe(C.ALL_MESSAGE_TYPES)
        self.sub = Actor(w, "S")
        self.sub.open()
        self.sub.handshake("v2v1", req_id=91, name=b"bystander_s")
        self.sub.subscribe(4000)
        if ch.flag("cfg.s_status", 1, 2):
            # S also follows what the manager itself announces (so it is served in the same broadcasts as offenders)
            for t in (C.MT_CLIENT_INFO, C.MT_CLIENT_CLOSED, C.MT_FAILED_MESSAGE, C.MT_RTMA_LOG_ERROR):
                self.sub.subscribe(t)
        self.pub = Actor(w, "P")
        self.pub.open()
        self.pub.handshake("v1", req_id=92)
        # a well-behaved module that allows further instances of its id
        self.multi = Actor(w, "M")
        self.multi.open()
        self.multi.handshake("v2v1", req_id=93, allow_multiple=True, name=b"bystander_m")
        self.bystanders = [self.mon, self.sub, self.pub, self.multi]
        w.quiesce()
        self.p_sent = []

    def new_offender(self, stage=None):
        ch = self.ch
        a = Actor(self.w, f"o{self.n_act}")
        self.n_act += 1
        a.open()
        self.offenders.append(a)
        stage = stage or ch.choose("host.stage", STAGES)
        if stage == "early_sub":
            # subscribes before (or without ever) completing a handshake
            for _ in range(1 + ch.pick("host.nearly", 2)):
                a.subscribe(ch.choose("host.earlyt", [C.ALL_MESSAGE_TYPES, C.MT_RTMA_LOG_ERROR, C.MT_RTMA_LOG_INFO, 1000,
                                                       C.MT_CLIENT_CLOSED, C.MT_FAILED_MESSAGE, C.MT_CLIENT_INFO]))
            if ch.flag("host.early_then_connect", 2, 3):
                rid = ch.choose("host.early_rid", [0, 91, 92, 90, 25, 101, -1, 93])
                a.handshake(ch.choose("host.proto", ["v2v1", "v1", "v2"]), req_id=rid, allow_multiple=ch.flag("host.em", 1, 2),
                            name=ch.choose("host.ename", [b"", b"monitor", b"bystander_s"]))
        elif stage != "fresh":
            rid = ch.weighted("host.rid", [(6, 0), (4, 20 + ch.pick("host.ridn", 10)), (1, 93), (1, 91)])
            a.handshake(ch.choose("host.proto", ["v2v1", "v1", "v2"]), req_id=rid,
                        logger=ch.flag("host.logger", 1, 6),
                        allow_multiple=True if rid not in (91, 93) else ch.flag("host.multi", 1, 2),
                        name=ch.choose("host.hname", NAMES) if ch.flag("host.named", 1, 3) else b"")
            if stage == "subscribed":
                t = ch.choose("host.subt", [1000, 4000, C.ALL_MESSAGE_TYPES, C.MT_CLIENT_CLOSED,
                                            C.MT_FAILED_MESSAGE, C.MT_RTMA_LOG_ERROR, C.MT_RTMA_LOG_DEBUG,
                                            C.MT_CLIENT_INFO])
                a.subscribe(t)
        a.stage = stage
        return a

    def pick_offender(self):
        ch = self.ch
        live = [a for a in self.offenders if a.alive]
        if live and ch.flag("host.reuse", 1, 2):
            return ch.choose("host.which", live)
        return self.new_offender()

    # ------------------------------------------------------------------ hostile ops
    def op_hdr_boundary(self, case=None):
        ch = self.ch
        if case:
            kind, fi, vi, stage = case["kind"], case["field"], case["value"], case["stage"]
            a = self.new_offender(stage)
        else:
            a = self.pick_offender()
            kind = ch.choose("hb.kind", FRAME_KINDS)
            fi = ch.pick("hb.field", len(HDR_FIELDS))
            vi = None
        fname, table = HDR_FIELDS[fi]
        val = table[vi % len(table)] if vi is not None else ch.choose("hb.value", table)
        mt, payload = base_frame(kind, a, ch)
        kw = dict(tagged=False)
        fields = dict(msg_type=mt, src=a.mod_id)
        raw_kw = {}
        if fname == "msg_type":
            mt = val
        elif fname == "src_mod_id":
            fields["src"] = val
        elif fname == "dest_mod_id":
            raw_kw["dest_mod"] = val
        elif fname == "dest_host_id":
            raw_kw["dest_host"] = val
        elif fname == "num_data_bytes":
            raw_kw["num_data_bytes"] = val
        elif fname == "send_time":
            raw_kw["send_time"] = val
        else:
            raw_kw[fname] = val
        raw = a.frame(mt, payload, src=fields["src"], tagged=False, **raw_kw)
        a.send_raw(raw)
        self.res.enumerated.setdefault("hdr_boundary", set()).add(f"{kind}/{fname}/{val!r}")
        self.t(f"{a.name}({getattr(a, 'stage', '?')}) sends {kind} frame with {fname}={val!r} "
               f"(payload {len(payload)} bytes)")
        if fname == "num_data_bytes":
            # what follows is shorter/longer than declared: the offender then goes away
            self.depart(a, ch.choose("hb.leave", ["fin", "rst"]))

    def depart(self, a, kind):
        if a.alive:
            a.leave(kind)
            self.t(f"{a.name} closes ({kind})")

    def op_ctl_payload(self):
        ch = self.ch
        a = self.pick_offender()
        kind = ch.choose("cp.kind", ["connect", "connect_v2", "subscribe", "unsubscribe", "pause", "resume",
                                     "set_name", "module_ready", "failed_message"])
        mt, payload = base_frame(kind, a, ch)
        how = ch.choose("cp.how", ["ff", "rand", "zero", "short", "long", "empty", "name"])
        if how == "ff":
            payload = b"\xff" * len(payload)
        elif how == "rand":
            payload = bytes(ch.pick("cp.byte", 256) for _ in range(len(payload)))
        elif how == "zero":
            payload = bytes(len(payload))
        elif how == "short":
            payload = payload[:ch.pick("cp.short", max(1, len(payload)))]
        elif how == "long":
            payload = payload + b"\xee" * (1 + ch.pick("cp.long", 64))
        elif how == "empty":
            payload = b""
        elif how == "name" and kind in ("connect_v2", "set_name"):
            nm = ch.choose("cp.name", NAMES)
            if kind == "connect_v2":
                payload = C.pack_connect_v2(0, 0, ch.pick("cp.multi", 2), a.req_id, 5, nm)
            else:
                payload = C.pack_set_name(nm)
            self.res.enumerated.setdefault("names", set()).add(repr(nm))
        a.send(mt, payload, tagged=False)
        self.t(f"{a.name} sends {kind} with payload variant '{how}' ({len(payload)} bytes)")

    def op_cut_close(self, case=None):
        ch = self.ch
        if case:
            a = self.new_offender(case["stage"])
            kind, k, way = case["kind"], case["offset"], case["way"]
        else:
            a = self.pick_offender()
            kind = ch.choose("cc.kind", FRAME_KINDS)
            k = None
            way = ch.choose("cc.way", ["fin", "rst"])
        mt, payload = base_frame(kind, a, ch)
        raw = a.frame(mt, payload, tagged=False)
        if k is None:
            k = ch.pick("cc.k", len(raw) + 1)
        k = min(k, len(raw))
        if k:
            a.send_raw(raw[:k])
        self.depart(a, way)
        self.res.enumerated.setdefault("cut_close", set()).add(f"{kind}/{k}/{way}")
        self.t(f"{a.name} sent {k}/{len(raw)} bytes of a {kind} frame, then {way}")

    def op_garbage(self):
        ch = self.ch
        a = self.pick_offender()
        n = ch.choose("gb.len", [1, 7, 47, 48, 49, 56, 100, 500])
        data = bytes(ch.pick("gb.byte", 256) for _ in range(n))
        a.send_raw(data)
        self.t(f"{a.name} sends {n} random bytes")
        if ch.flag("gb.leave", 2, 3):
            self.depart(a, ch.choose("gb.way", ["fin", "rst"]))
        else:
            a.garbage = True

    def op_msgtype(self):
        ch = self.ch
        a = self.pick_offender()
        mt = ch.choose("mt.value", INT32 + [C.ALL_MESSAGE_TYPES, 2 ** 31 - 1, -2, 10001, 20000])
        a.send(mt, bytes(ch.pick("mt.len", 16)), tagged=False)
        self.t(f"{a.name} publishes message type {mt}")

    def op_type_sweep(self):
        """many distinct message types within one statistics interval (64 per TRAFFIC sub-message)"""
        ch = self.ch
        a = self.pick_offender()
        k = ch.choose("sweep.k", [63, 64, 65, 127, 128, 129, 192, 200])
        base = ch.choose("sweep.base", [3000, 9900, 20000])
        for i in range(k):
            a.send(base + i, b"", tagged=False)
        self.t(f"{a.name} publishes {k} distinct message types from {base}")
        self.w.quiesce(limit=4000)
        self.w.advance(1.1)
        self.w.step()
        self.w.step()
        self.res.probes[f"type_sweep_{k}"] += 1

    def op_burst(self, case=None):
        ch = self.ch
        n = case["n"] if case else ch.choose("burst.n", [5, 30, 101, 120, 260, 300])
        dyn = ch.flag("burst.dyn", 2, 3) if not case else False
        # in some bursts every member follows the same announcement of the manager (so that the death of one is
        # discovered while the others are being told about it)
        same = case["same"] if case else ch.weighted("burst.same", [(3, None), (1, C.MT_CLIENT_CLOSED), (1, C.MT_RTMA_LOG_ERROR),
                                                                   (1, C.ALL_MESSAGE_TYPES)])
        if os.environ.get("VERIF_NO_MASS_FAILURE") and not case:
            same = None
        if same is not None and not case:
            # (every broadcast of that kind goes to every member: quadratic work; the 300-member versions are
            # deterministic cases with their own wall limit)
            n = min(n, 40 if same == C.ALL_MESSAGE_TYPES else 101)
        if n > 120:
            # (with hundreds of connections and an expensive write the periodic sweeps would be due again as soon as
            # they end: every round would be a sweep)
            self.w.write_cost = min(self.w.write_cost, 2e-5)
        group = []
        for i in range(n):
            a = Actor(self.w, f"b{self.n_act}")
            self.n_act += 1
            a.open()
            self.offenders.append(a)
            group.append(a)
            if dyn:
                a.handshake("v2v1", req_id=0, allow_multiple=True)
            else:
                a.handshake("v2v1", req_id=1 + (i % 89), allow_multiple=True)
            if same is not None:
                a.subscribe(same)
            elif ch.flag("burst.sub", 1, 4):
                a.subscribe(ch.choose("burst.subt", [1000, 4000, C.MT_CLIENT_CLOSED, C.MT_ACTIVE_CLIENTS]))
        if same is not None:
            self.res.probes["burst_same_subscription"] += 1
        self.res.probes[f"burst_{n}"] += 1
        self.t(f"burst of {n} connections ({'dynamic' if dyn else 'static'} ids)")
        # let the manager accept them (one per round), maybe across an ACTIVE_CLIENTS period
        steps = n + 20
        for _ in range(steps):
            self.w.step()
        if ch.flag("burst.clock", 1, 2):
            self.w.advance(5.2)
            self.t("clock +5.2 (ACTIVE_CLIENTS due)")
            self.w.step()
            self.w.step()
        way = case["way"] if case else ch.choose("burst.way", ["fin", "rst", "keep"])
        if way != "keep":
            for a in group:
                a.leave(way)
            if (case and case.get("arrived")) or (not case and ch.flag("burst.arrived", 1, 2)):
                # ... and the manager's kernel knows about every one of them before the manager looks again
                for a in group:
                    ms = a.sock.peer
                    if ms.rx_rst == 1:
                        ms.arrive_rst_now()
                    elif ms.rx_fin == 1:
                        ms.arrive()
            self.t(f"all {n} close ({way}) at the same instant")
            if case:
                self.w.quiesce()

    def op_churn(self, case=None):
        """one offender after the other connects and leaves again: never more than a few connections are open,
        but many hundreds have been accepted over the life of the manager"""
        ch = self.ch
        n = case["n"] if case else ch.choose("churn.n", [150, 400, 950, 1100])
        way = ch.choose("churn.way", ["fin", "rst", "disconnect"])
        self.t(f"{n} clients connect and leave one after the other ({way})")
        for i in range(n):
            a = Actor(self.w, f"c{self.n_act}")
            self.n_act += 1
            a.open()
            a.handshake("v2v1", req_id=0, allow_multiple=True)
            self.w.quiesce()
            if way == "disconnect":
                a.disconnect()
            a.leave("fin" if way == "disconnect" else way)
            self.w.quiesce()
        self.res.probes[f"churn_{n}"] += 1

    def op_pair_fail(self, case=None):
        """two clients fail in the same round / same delivery, every service order by shuffle"""
        ch = self.ch
        kinds = ["reader_dies", "subscriber_write_fails", "logger_write_fails", "publisher_dies_midframe"]
        if case:
            k1, k2 = case["k1"], case["k2"]
        else:
            k1 = ch.choose("pf.k1", kinds)
            k2 = ch.choose("pf.k2", kinds)
        trigger_type = 1000
        made = []
        for k in (k1, k2):
            a = Actor(self.w, f"f{self.n_act}")
            self.n_act += 1
            a.open()
            self.offenders.append(a)
            a.handshake("v2v1", req_id=0, logger=(k == "logger_write_fails"), allow_multiple=True)
            if k in ("subscriber_write_fails", "logger_write_fails", "reader_dies"):
                a.subscribe(ch.choose("pf.subt", [trigger_type, C.ALL_MESSAGE_TYPES, C.MT_CLIENT_CLOSED,
                                                  C.MT_FAILED_MESSAGE]))
            made.append((k, a))
        self.w.quiesce()
        for k, a in made:
            if k == "reader_dies":
                a.leave(ch.choose("pf.rd", ["fin", "rst"]))
            elif k in ("subscriber_write_fails", "logger_write_fails"):
                ms = a.sock.peer
                ms.fault_after = ch.choose("pf.k", [0, 1, 47, 48, 49, 60])
                ms.fault_kind = ch.choose("pf.fk", ["rst", "fin"])
            else:
                raw = a.frame(trigger_type, bytes(30), tagged=False)
                a.send_raw(raw[:ch.choose("pf.cut", [1, 20, 48, 50, 77])])
                a.leave(ch.choose("pf.pd", ["fin", "rst"]))
        # the trigger: a bystander publishes, so deliveries meet the armed failures
        self.publish_bystander(trigger_type)
        self.res.enumerated.setdefault("pair_fail", set()).add(f"{k1}+{k2}")
        self.t(f"pair of failures: {k1} + {k2}, triggered by a publish")

    def publish_bystander(self, mtype=4000):
        n = self.ch.pick("bp.len", 30)
        self.w.tag_counter += 0
        raw = self.pub.frame(mtype, bytes([n]) * n)
        self.pub.send_raw(raw)
        if mtype == 4000:
            self.p_sent.append(self.pub.sent[-1])

    # ------------------------------------------------------------------ run
    OPS = [(12, "hdr"), (8, "ctl"), (8, "cut"), (4, "garbage"), (6, "msgtype"), (2, "burst"),
           (6, "pair"), (8, "bystander"), (4, "sweep"), (1, "churn")]

    def one_op(self):
        ch = self.ch
        k = ch.weighted("host.op", self.OPS)
        if k == "hdr":
            self.op_hdr_boundary()
        elif k == "ctl":
            self.op_ctl_payload()
        elif k == "cut":
            self.op_cut_close()
        elif k == "garbage":
            self.op_garbage()
        elif k == "msgtype":
            self.op_msgtype()
        elif k == "burst":
            if not self.did_burst:
                self.did_burst = True
                self.op_burst()
        elif k == "pair":
            self.op_pair_fail()
        elif k == "churn":
            if not self.did_burst:
                self.did_burst = True
                self.op_churn()
        elif k == "sweep":
            self.op_type_sweep()
        else:
            self.publish_bystander()
            self.t("P publishes type 4000")

    def run(self) -> RunResult:
        res = self.res
        self.did_burst = False
        try:
            self.setup()
            ch = self.ch
            if self.forced:
                f = self.forced
                {"hdr": self.op_hdr_boundary, "cut": self.op_cut_close, "pair": self.op_pair_fail,
                 "churn": self.op_churn, "burst": self.op_burst}[f["op"]](f)
                for _ in range(3):
                    self.w.step()
            n_ops = ch.pick("host.nops", 12) + (0 if self.forced else 2)
            for _ in range(n_ops):
                self.one_op()
                for _ in range(ch.weighted("drv.steps", [(3, 0), (3, 1), (2, 3)])):
                    self.w.step()
                if ch.flag("host.clock", 1, 10):
                    self.w.advance(ch.choose("host.dt", [0.95, 1.1, 5.2]))
            self.finish()
            self.oracles()
        except ManagerCrashed as e:
            res.crash = e.signature()
            res.crash_detail = str(e)
            self.t(f"MANAGER CRASHED: {e}")
            res.add("C03", "manager_crash", f"the manager thread died: {e}; chain={'>'.join(e.chain[-4:])}",
                    sig="crash:" + e.signature())
        except TaskHung as e:
            res.add("C03", "manager_livelock", f"the manager never returned to a socket call: {e.where}",
                    sig="livelock")
            res.hung = True
        finally:
            self.collect()
            try:
                self.w.teardown()
            except TaskHung:
                pass
        return res

    def finish(self):
        w = self.w
        # every offender goes away (the two documented stalls are never generated)
        for a in self.offenders:
            if a.alive:
                a.flush_tail()
                a.leave(self.ch.choose("fin.way", ["fin", "rst"]))
        w.quiesce(limit=2000)

    def collect(self):
        res, w = self.res, self.w
        net = w.net
        res.stats.update({k: v for k, v in net.stats.items() if v})
        res.digest = w.digest()
        res.sim_seconds = w.clock.advanced
        res.round_sigs = set(net.round_sigs)
        res.n_choices = len(self.ch.trace)
        res.nontrivial = True

    # ------------------------------------------------------------------ oracles
    def oracles(self):
        res, w = self.res, self.w
        net = w.net
        # (iii) the manager never touched a socket it had itself closed
        for seq, idx, what in w.closed_use:
            res.add("C03", "use_after_close", f"manager used closed conn {idx} in {what}")
        # (iv) bystanders' connections are untouched
        closed = {c for (_s, c) in net.closes}
        # a connection whose peer is gone must end up closed by the manager: one that is neither selected on any
        # more nor closed has leaked (its descriptor is lost for the life of the process)
        watching = {s.idx for s in getattr(w, "last_rlist", ())}
        leaked = [s.idx for s in net.mgr_socks.values()
                  if not s.closed and s.peer is not None and s.peer.closed and s.idx not in watching]
        if leaked:
            res.add("C03", "connection_leaked", f"{len(leaked)} connection(s) whose peer left (first: conn {leaked[0]}) are neither "
                                                f"closed nor watched by the manager any more", sig="connection_leaked")
        for b in self.bystanders:
            if b.conn in closed:
                res.add("C03", "bystander_closed", f"the manager closed the connection of well-behaved client {b.name}")
        # bystander traffic: every P message reached S exactly once, unmodified
        frames, left = self.sub.received()
        got = Counter((h.send_time, p) for h, p in frames if h.send_time >= TAG_BASE and h.msg_type == 4000)
        for s in self.p_sent:
            n = got.get((s.tag, s.payload), 0)
            if n != 1:
                res.add("C03", "bystander_delivery", f"bystander S received {n} copies of P's message tag={s.tag}")
        if self.p_sent:
            res.probes["bystander_msgs_checked"] += len(self.p_sent)
        if left:
            res.add("C03", "bystander_stream", "bystander S stream ends inside a frame")
        # what the manager wrote to each well-behaved client is still a sequence of whole, consecutively numbered
        # frames: an offender must not be able to garble somebody else's stream
        for b in self.bystanders:
            fr, lf = b.received()
            for i, (h, _p) in enumerate(fr):
                if h.msg_count != i + 1:
                    res.add("C03", "bystander_stream",
                            f"the stream written to well-behaved client {b.name} is garbled: frame #{i + 1} "
                            f"(type={h.msg_type}, {h.num_data_bytes} bytes) carries sequence number {h.msg_count}",
                            sig="bystander_stream")
                    break
            else:
                if lf and b.conn not in closed:
                    res.add("C03", "bystander_stream", f"the stream written to well-behaved client {b.name} ends inside a frame",
                            sig="bystander_stream")
            res.probes["bystander_streams_checked"] += 1
        # (ii) bounded liveness once faults have stopped
        w.force_writable = lambda rnd, cands: {s.idx for s in cands}
        s2 = Actor(w, "probe_sub")
        s2.open()
        s2.handshake("v2v1", req_id=0, name=b"probe_s")
        s2.subscribe(4242)
        used = 0
        for used in range(1, 26):
            w.step()
            fr, _ = s2.received()
            if sum(1 for h, _p in fr if h.msg_type == C.MT_ACKNOWLEDGE) >= 2:
                break
        p2 = Actor(w, "probe_pub")
        p2.open()
        p2.handshake("v2v1", req_id=0, name=b"probe_p")
        raw = p2.frame(4242, b"liveness")
        p2.send_raw(raw)
        tag = p2.sent[-1].tag
        ok = False
        rounds = 0
        for rounds in range(1, 51 - used):
            w.step()
            fr, _ = s2.received()
            if any(h.send_time == tag and p == b"liveness" for h, p in fr):
                ok = True
                break
        if not ok:
            fr, _ = s2.received()
            acks = sum(1 for h, _p in fr if h.msg_type == C.MT_ACKNOWLEDGE)
            res.add("C03", "liveness", f"after all offenders left, a fresh subscriber/publisher pair did not get its "
                                       f"message through within 50 rounds (subscriber saw {acks} ACKs, "
                                       f"closed={s2.sock.peer.closed})")
        else:
            res.probes["liveness_ok"] += 1
            res.stats["liveness_rounds"] += rounds
        fr, _ = p2.received()
        if not any(h.msg_type == C.MT_ACKNOWLEDGE for h, _p in fr) and ok:
            res.add("C03", "liveness_ack", "the fresh publisher was not acknowledged")


def run(choices, forced=None) -> RunResult:
    return HostileRun(choices, forced).run()


def det_cases(tier):
    """finite fault tables (complete in the thorough tier, sampled stride in quick)"""
    cases = []
    for ki, kind in enumerate(FRAME_KINDS):
        for fi, (fname, table) in enumerate(HDR_FIELDS):
            for vi in range(len(table)):
                for stage in STAGES:
                    cases.append(dict(op="hdr", kind=kind, field=fi, value=vi, stage=stage))
    for kind in FRAME_KINDS:
        mt_len = {"data": 48 + 40, "connect": 52, "connect_v2": 92, "subscribe": 52, "unsubscribe": 52,
                  "pause": 52, "resume": 52, "disconnect": 48, "set_name": 80, "module_ready": 52,
                  "ack": 48, "failed_message": 112, "timing": 112, "log": 48 + 1936}[kind]
        offs = list(range(0, min(mt_len, 120) + 1)) + ([mt_len - 1, mt_len, mt_len + 8] if mt_len > 120 else [])
        for k in offs:
            for way in ("fin", "rst"):
                for stage in ("fresh", "subscribed"):
                    cases.append(dict(op="cut", kind=kind, offset=k, way=way, stage=stage))
    kinds = ["reader_dies", "subscriber_write_fails", "logger_write_fails", "publisher_dies_midframe"]
    for k1 in kinds:
        for k2 in kinds:
            for rep in range(6):
                cases.append(dict(op="pair", k1=k1, k2=k2, rep=rep))
    # many hundreds of connections over the life of one manager, a few at a time
    if tier == "quick":
        cases = cases[::23]
    cases.append(dict(op="churn", n=1100, wall_s=400))
    if os.environ.get("VERIF_NO_MASS_FAILURE"):
        return cases
    # hundreds of clients that follow the same announcement fail at the same instant
    for same in (C.MT_CLIENT_CLOSED, C.MT_RTMA_LOG_ERROR, C.ALL_MESSAGE_TYPES):
        for way in ("rst", "fin"):
            if tier == "quick" and (way == "fin" or same == C.ALL_MESSAGE_TYPES):
                continue        # (the quick tier keeps the two cheapest of the six: a few seconds each)
            cases.append(dict(op="burst", n=300 if same != C.ALL_MESSAGE_TYPES else 200, same=same, way=way, arrived=True,
                              wall_s=600))
    if tier == "quick":
        cases.append(dict(op="burst", n=100, same=C.ALL_MESSAGE_TYPES, way="rst", arrived=True, wall_s=300))
    return cases
