"""Harness `readpath` (C08): a real pyrtma.Client reads from a scripted server over the fake socket.
The peer and the wire are the simulated world; a crash is a close at an arbitrary byte."""
from __future__ import annotations

import struct

from sim import codec as C
from sim.net import SimSocket
from sim.net import SimStall
from sim.world import World
from .base import RunResult

ALL = C.ALL_MESSAGE_TYPES
# locally defined (core) message types used as "good" frames: id -> payload size
GOOD_TYPES = [26, 32, 0, 8, 33, 14, 62]
SCRATCH_TYPE = 31990           # registered / re-registered through the public @message_def at run time
UNKNOWN_TYPES = [7777, 7778, 123456, -7, -2147483648, 2147483646, 65536]


class Frame:
    __slots__ = ("start", "end", "kind", "mtype", "hdr_raw", "payload", "version")

    def __init__(self, start, kind, mtype, hdr_raw, payload, version):
        self.start = start
        self.end = start + len(hdr_raw) + len(payload)
        self.kind = kind
        self.mtype = mtype
        self.hdr_raw = hdr_raw
        self.payload = payload
        self.version = version


class ReadPathRun:
    def __init__(self, choices, forced=None):
        self.ch = choices
        self.forced = forced or {}
        self.res = RunResult()
        self.frames = []
        self.stream_len = 0          # bytes ever written by the server after the handshake
        self.consumed = 0            # bytes the client consumed after the handshake
        self.closed_kind = None      # server closed: 'fin' | 'rst'
        self.closed_at = None        # number of post-handshake bytes that will ever be readable
        self.handshake_done = False
        self.calls = 0
        self.withheld = False
        self.msub = set()
        self.mall = False

    def t(self, s):
        self.res.trace.append(s)

    # ------------------------------------------------------------------ world / server
    def setup(self):
        import pyrtma
        import pyrtma.message as PM
        ch = self.ch
        self.timecode = self.timecode_wanted
        self.hs = C.hdr_size(self.timecode)
        self.w = World(ch, timecode=self.timecode)
        w = self.w
        w.patch()
        self.defs = {}
        import pyrtma.core_defs as cdefs
        core = {v.type_id: v for k, v in vars(cdefs).items() if k.startswith("MDF_")}
        for t in GOOD_TYPES + [C.MT_ACKNOWLEDGE]:
            cls = core[t]               # the shipped core definitions (what a fresh process has registered)
            self.defs[t] = (cls.type_size, cls.type_hash)
        self.scratch_layout = 0
        self.define_scratch(ch.pick("cfg.layout", 3))
        lst = SimSocket(w.net, "mgr")
        lst.bind(("127.0.0.1", w.PORT))
        lst.listen(5)
        self.lst = lst
        self.srv = None
        w.driver_block_hook = self.on_block
        w.peer_read_hook = self.on_client_read
        self.client = pyrtma.Client(module_id=21, timecode=self.timecode)
        w.register_client_logger(self.client)
        self.csock = None
        self.client.connect(f"127.0.0.1:{w.PORT}")
        self.csock = self.client._sock
        # the client consumed the ACK during connect; from here on everything is scripted
        self.handshake_done = True
        self.consumed = 0
        self.res.config = dict(timecode=self.timecode, forced=self.forced)

    def load_quicklogger_file(self):
        """the same process reads a quicklogger file with the package's reader (which temporarily swaps the
        message-definition tables); afterwards the client's definitions must be what they were"""
        import io
        import contextlib
        import os
        import tempfile
        from pyrtma.utils.quicklogger_reader import QLReader, QLFileHeader
        from harness.datalogger import qldefs_path
        d = tempfile.mkdtemp(prefix="verif_rp_", dir=os.environ.get("VERIF_SCRATCH", "/tmp"))
        try:
            p = os.path.join(d, "empty.bin")
            fh = QLFileHeader()
            fh.format_version = 1
            fh.message_header_size = 48
            fh.data_block_offset_size = 4
            fh.total_bytes = fh.size
            with open(p, "wb") as f:
                f.write(bytes(fh))
            with contextlib.redirect_stdout(io.StringIO()):
                QLReader().load(p, qldefs_path())
        finally:
            import shutil
            shutil.rmtree(d, ignore_errors=True)
        # (the scratch type is not part of the reader's definitions file; re-register it as the application would)
        self.define_scratch(self.scratch_layout)
        self.res.probes["quicklogger_file_loaded"] += 1
        self.t("the process loads a quicklogger file with QLReader")

    def define_scratch(self, layout):
        """(re-)register the scratch message type with one of two layouts via the public decorator"""
        import pyrtma
        from pyrtma.message_base import MessageMeta
        from pyrtma.validators import Int32, Double, IntArray
        if layout == 0:
            class MDF_SCRATCH(pyrtma.MessageData, metaclass=MessageMeta):
                type_id = SCRATCH_TYPE
                type_name = "SCRATCH"
                type_hash = 0x1111
                type_size = 8
                type_source = ""
                type_def = ""
                a: Int32 = Int32()
                size: Int32 = Int32()          # (an ordinary field name; it shadows nothing the reader may rely on)
        elif layout == 2:
            # an old-style definition: plain ctypes fields and no type_size constant (the reader falls back to the
            # size of an instance)
            import ctypes

            class MDF_SCRATCH(pyrtma.MessageData):
                _fields_ = [("a", ctypes.c_int), ("b", ctypes.c_int), ("c", ctypes.c_double)]
                type_id = SCRATCH_TYPE
                type_name = "SCRATCH"
                type_hash = 0x3333
        else:
            class MDF_SCRATCH(pyrtma.MessageData, metaclass=MessageMeta):
                type_id = SCRATCH_TYPE
                type_name = "SCRATCH"
                type_hash = 0x2222
                type_size = 24
                type_source = ""
                type_def = ""
                a: Int32 = Int32()
                b: Int32 = Int32()
                c: Double = Double()
                d: IntArray = IntArray(Int32, 2)
        pyrtma.message_def(MDF_SCRATCH)
        self.scratch_layout = layout
        import ctypes as _ct
        self.defs[SCRATCH_TYPE] = (_ct.sizeof(MDF_SCRATCH), MDF_SCRATCH.type_hash)
        if layout == 2:
            self.res.probes["scratch_old_style_definition"] += 1

    def on_client_read(self, sock, data, wanted):
        if self.handshake_done and sock is self.csock:
            self.consumed += len(data)

    def server_accept_and_ack(self):
        srv, _ = self.lst.accept()
        self.srv = srv
        srv.arrive()
        # the ACK the client waits for
        ack = C.pack_hdr(self.timecode, msg_type=C.MT_ACKNOWLEDGE, msg_count=1, send_time=1.0, dest_mod_id=21)
        srv.peer.rx_inflight += ack
        srv.peer.rx_log += ack
        srv.peer.arrive()

    def on_block(self, sock, need, deadline):
        """the client is blocked in select/recv: the scripted server decides what happens"""
        ch = self.ch
        if not self.handshake_done:
            if self.srv is None:
                self.server_accept_and_ack()
                return True
            return False
        if ch.flag("rd.slow", 1, 6):
            # a slow link: time passes while the bytes trickle in (deadlines may pass in the middle of a frame)
            self.w.clock.advance(ch.choose("rd.slow.dt", [0.05, 0.4, 1.5]))
            self.res.stats["slow_link_delays"] += 1
        if sock.rx_inflight:
            how = ch.weighted("rd.arrive", [(4, "all"), (2, "need"), (2, "cut")])
            if how == "all" or len(sock.rx_inflight) == 1:
                sock.arrive(len(sock.rx_inflight)) if False else self._arrive(sock, len(sock.rx_inflight))
            elif how == "need":
                self._arrive(sock, max(1, min(need - len(sock.rx_arrived), len(sock.rx_inflight))))
            else:
                self._arrive(sock, 1 + ch.pick("rd.cut", len(sock.rx_inflight) - 1))
                self.res.stats["cut_arrivals"] += 1
            return True
        if sock.rx_fin == 1 or sock.rx_rst == 1:
            sock.arrive()
            if sock.rx_rst == 1:
                sock.arrive_rst_now()
            return True
        if deadline is not None:
            # nothing in flight: the timeout expires (or, sometimes, data turns up just in time)
            if self.closed_kind is None and ch.flag("rd.just_in_time", 1, 4):
                self.feed_one()
                return True
            return "expire"
        # blocking read with nothing in flight: data will come
        if self.closed_kind is None:
            self.feed_one()
            self.res.probes["blocking_read_fed"] += 1
            return True
        return False

    def _arrive(self, sock, n):
        sock.arrive(n) if n < len(sock.rx_inflight) else self._arrive_all(sock)

    @staticmethod
    def _arrive_all(sock):
        if sock.rx_inflight:
            sock.rx_arrived += sock.rx_inflight
            del sock.rx_inflight[:]
        # (FIN / RST arrive separately, as their own scheduler decision)

    # ------------------------------------------------------------------ feeding
    def make_frame(self, kind=None):
        ch = self.ch
        kind = kind or ch.weighted("fd.kind", [(5, "good"), (4, "good_unsub"), (2, "ack"), (2, "unknown"),
                                               (2, "wrong_size"), (2, "wrong_version"), (1, "version0"),
                                               (1, "zero_len")])
        sub = {ALL} if self.mall else set(self.msub)
        version = None
        if kind in ("good", "good_unsub", "wrong_version", "version0", "wrong_size"):
            pool = GOOD_TYPES + [SCRATCH_TYPE, SCRATCH_TYPE]
            cands = [t for t in pool if (t in sub) == (kind != "good_unsub")] or pool
            if kind == "zero_len":
                cands = [0, 14]
            t = ch.choose("fd.type", cands)
            size, h = self.defs[t]
            n = size
            version = h
            if kind == "wrong_size":
                n = ch.choose("fd.wsize", [size + 1, max(0, size - 1), size + 17, 0 if size else 3, 2 * size + 5,
                                           9000, 9001, 18001, 20000, 65535])
                if n == size:
                    n = size + 2
            elif kind == "wrong_version":
                version = (h ^ 0x5A5A) or 1
            elif kind == "version0":
                version = 0
        elif kind == "zero_len":
            t = ch.choose("fd.ztype", [0, 14])
            size, h = self.defs[t]
            n, version = 0, h
        elif kind == "ack":
            t = C.MT_ACKNOWLEDGE
            n, version = 0, self.defs[t][1]
        else:
            t = ch.choose("fd.utype", UNKNOWN_TYPES)
            n = ch.choose("fd.ulen", [0, 1, 8, 100, 100, 8999, 9000, 9001, 17999, 27005, 65535])
            version = 0
        seqno = len(self.frames) + 2
        payload = bytes(((seqno * 31 + i * 7) & 0xFF) for i in range(n))
        hdr = C.pack_hdr(self.timecode, msg_type=t, msg_count=seqno, send_time=2000.0 + seqno,
                         src_mod_id=5, dest_mod_id=0, num_data_bytes=n, reserved=version,
                         utc_seconds=seqno, utc_fraction=7)
        return Frame(self.stream_len, kind, t, hdr, payload, version)

    def feed_one(self, kind=None):
        f = self.make_frame(kind)
        self.frames.append(f)
        raw = f.hdr_raw + f.payload
        self.stream_len += len(raw)
        self.csock.rx_inflight += raw
        self.csock.rx_log += raw
        self.res.probes["fed_" + f.kind] += 1
        self.t(f"server feeds #{len(self.frames)} {f.kind} type={f.mtype} len={len(f.payload)}")
        return f

    def server_close(self, kind, keep=None):
        """close after `keep` more bytes of what is still unread have become readable"""
        sock = self.csock
        unread = len(sock.rx_arrived) + len(sock.rx_inflight)
        if keep is None:
            keep = self.ch.pick("cl.keep", unread + 1)
        keep = min(keep, unread)
        # bytes beyond `keep` never arrive
        total_avail = self.consumed + keep
        drop = unread - keep
        if drop:
            if drop <= len(sock.rx_inflight):
                del sock.rx_inflight[len(sock.rx_inflight) - drop:]
            else:
                d2 = drop - len(sock.rx_inflight)
                del sock.rx_inflight[:]
                del sock.rx_arrived[len(sock.rx_arrived) - d2:]
        self.closed_kind = kind
        self.closed_at = total_avail
        self.srv.closed = True
        if kind == "fin":
            sock.rx_fin = 1
        else:
            sock.rx_rst = 1
        self.res.stats[kind] += 1
        self.res.enumerated.setdefault("close_offset", set()).add(self.offset_label(total_avail))
        self.t(f"server closes ({kind}) after stream byte {total_avail}")

    def offset_label(self, pos):
        for f in self.frames:
            if f.start <= pos < f.end:
                return f"{f.kind}+{pos - f.start}"
        return "boundary"

    # ------------------------------------------------------------------ the reads
    def skippable(self, f, sub, sub_all, ack, sync):
        """an unsubscribed, decodable frame: may be consumed silently"""
        if not self.decodable(f, sync):
            return False
        if sub_all:
            return False
        if ack and f.mtype == C.MT_ACKNOWLEDGE:
            return False
        return f.mtype not in sub

    def decodable(self, f, sync):
        d = self.defs.get(f.mtype)
        if d is None:
            return False
        if d[0] != len(f.payload):
            return False
        if sync and f.version != 0 and f.version != d[1]:
            return False
        return True

    def do_discard(self):
        """discard_messages(): whatever it throws away or trips over, the client's filter and framing must be
        what they were afterwards (judged by the reads that follow)"""
        from pyrtma.exceptions import ConnectionLost, UnknownMessageType, InvalidMessageDefinition
        c = self.client
        res = self.res
        self.t("discard_messages()")
        outcome = "ok"
        try:
            c.discard_messages(timeout=self.ch.choose("dm.timeout", [1, 0.01, 5]))
        except ConnectionLost:
            outcome = "lost"
            if self.closed_kind is None:
                res.add("C08", "spurious_connection_lost", "discard_messages: ConnectionLost although the server never closed")
            elif c.connected:
                res.add("C08", "still_connected", f"discard_messages: ConnectionLost was raised ({self.closed_kind}) but "
                                                  f"the client still says connected",
                        sig="still_connected:" + str(self.closed_kind))
        except (UnknownMessageType, InvalidMessageDefinition):
            outcome = "decode_error"
        except Exception as e:
            from pyrtma.exceptions import NotConnectedError
            if isinstance(e, NotConnectedError):
                res.add("C08", "silently_disconnected", "discard_messages: NotConnectedError although the loss of the "
                                                        "connection was never reported as ConnectionLost",
                        sig="silently_disconnected")
            else:
                res.add("C08", "undocumented_exception", f"discard_messages raised {type(e).__name__}: {e}",
                        sig="undocumented_exception:" + type(e).__name__)
            outcome = "lost"
        res.probes["discard_messages_" + outcome] += 1
        if outcome != "lost":
            ends = {0} | {f.end for f in self.frames}
            truncated_by_close = (outcome == "decode_error" and self.closed_kind is not None
                                  and self.consumed >= self.closed_at)
            if self.consumed not in ends and not truncated_by_close:
                res.add("C08", "misaligned", f"discard_messages() stopped in the middle of a frame (consumed up to {self.consumed})")
        return outcome

    def do_read(self, poll_only=False):
        from pyrtma.exceptions import (ConnectionLost, UnknownMessageType, InvalidMessageDefinition,
                                       NotConnectedError)
        ch = self.ch
        res = self.res
        c = self.client
        timeout = ch.weighted("rd.timeout", [(4, 0), (3, 0.25), (2, -1), (1, None), (1, 3)])
        if poll_only:
            timeout = 0
        ack = ch.flag("rd.ack", 1, 5)
        sync = ch.flag("rd.sync", 1, 2)
        # 'currently subscribed' is judged by the history of API calls, not by what the client reports
        sub = set(self.msub)
        sub_all = self.mall
        sock = self.csock
        if timeout is None and not sock.rx_arrived and not sock.rx_inflight and self.closed_kind is None:
            self.feed_one()   # timeout=None skips select and blocks in recv: data will come
        pos0 = self.consumed
        avail0 = len(sock.rx_arrived)
        self.calls += 1
        outcome, val = None, None
        try:
            val = c.read_message(timeout=timeout, ack=ack, sync_check=sync)
            outcome = "none" if val is None else "msg"
        except ConnectionLost:
            outcome = "lost"
        except UnknownMessageType as e:
            outcome, val = "unknown", e
        except InvalidMessageDefinition as e:
            outcome, val = "invalid", e
        except NotConnectedError:
            outcome = "notconnected"
        except SimStall as e:
            # the reader waits for bytes that no frame of the script declares (the server keeps sending and the
            # wait never ends): it has lost the framing
            res.add("C08", "misaligned", f"call #{self.calls}: read_message waits for ever for more payload than any frame "
                                         f"declares ({e})", sig="reader_waits_for_ever")
            outcome = "lost"
            self.t(f"read_message(timeout={timeout}) never returns")
            return outcome
        except Exception as e:   # anything else is undocumented
            outcome, val = "other", e
        pos1 = self.consumed
        self.t(f"read_message(timeout={timeout}, ack={ack}, sync_check={sync}) sub={sorted(sub) if not sub_all else 'ALL'} "
               f"-> {outcome} consumed [{pos0},{pos1})")
        res.probes["read_" + outcome] += 1
        self.judge(outcome, val, pos0, pos1, avail0, sub, sub_all, ack, sync, timeout)
        return outcome

    def judge(self, outcome, val, pos0, pos1, avail0, sub, sub_all, ack, sync, timeout):
        res = self.res
        c = self.client
        F = [f for f in self.frames if f.start >= pos0 and f.end <= pos1]
        nxt = [f for f in self.frames if f.start < pos1 < f.end]      # frame cut by pos1
        at_boundary = not nxt
        lost_ok = False
        ctx = f"call #{self.calls}"
        if outcome == "other":
            res.add("C08", "undocumented_exception", f"{ctx}: read_message raised {type(val).__name__}: {val}",
                    sig="undocumented_exception:" + type(val).__name__)
            return
        if outcome == "notconnected":
            res.add("C08", "silently_disconnected", f"{ctx}: NotConnectedError although the loss of the connection was "
                                                    f"never reported as ConnectionLost", sig="silently_disconnected")
            return
        if pos0 != (F[0].start if F else pos0) or any(f.start == pos0 for f in self.frames) is False and pos0 != self.stream_len \
                and pos0 != (self.closed_at if self.closed_at is not None else -1):
            pass
        # all consumed frames but the last must be silently skippable
        decide = None
        body = F
        if outcome in ("msg", "unknown", "invalid") and F and at_boundary:
            decide, body = F[-1], F[:-1]
        for f in body:
            if not self.skippable(f, sub, sub_all, ack, sync):
                if outcome == "lost" and f is body[-1]:
                    continue
                res.add("C08", "frame_swallowed",
                        f"{ctx}: frame {f.kind} type={f.mtype} was consumed silently (outcome {outcome}) although it is "
                        f"{'subscribed' if self.decodable(f, sync) else 'undecodable'}")
                return
        if body:
            res.probes["skipped_frames"] += len(body)
        if outcome == "msg":
            if decide is None:
                res.add("C08", "misaligned", f"{ctx}: a message was returned but consumption [{pos0},{pos1}) does not end "
                                             f"at a frame boundary")
                return
            h = val.header
            if not (sub_all or h.msg_type in sub or (ack and h.msg_type == C.MT_ACKNOWLEDGE)):
                res.add("C08", "unsubscribed_returned", f"{ctx}: returned type {h.msg_type} while subscribed to {sorted(sub)}")
            if not self.decodable(decide, sync):
                res.add("C08", "undecodable_returned", f"{ctx}: frame {decide.kind} type={decide.mtype} was returned as a message")
                return
            got_h = bytes(h)
            want_h = decide.hdr_raw
            if got_h[:16] != want_h[:16] or got_h[24:] != want_h[24:]:
                res.add("C08", "header_modified", f"{ctx}: returned header differs from the frame sent (type {decide.mtype})")
            if bytes(val.data) != decide.payload:
                res.add("C08", "payload_modified", f"{ctx}: returned payload differs from the frame sent (type {decide.mtype})")
            res.probes["returned_checked"] += 1
        elif outcome in ("unknown", "invalid"):
            # the offending frame, consumed whole -- or cut short by the close inside its payload
            off = decide
            if off is None and nxt and self.closed_at is not None and pos1 == self.closed_at:
                off = nxt[0]
                res.probes["decode_error_on_cut_frame"] += 1
            if off is None:
                res.add("C08", "offender_not_consumed", f"{ctx}: {outcome} raised but consumption [{pos0},{pos1}) does not "
                                                        f"end at the end of the offending frame")
                return
            is_unknown = off.mtype not in self.defs
            if self.decodable(off, sync):
                res.add("C08", "spurious_decode_error", f"{ctx}: {outcome} raised for a decodable frame type={off.mtype}")
            elif is_unknown != (outcome == "unknown"):
                res.add("C08", "wrong_error", f"{ctx}: frame {off.kind} type={off.mtype} raised {outcome}")
            else:
                res.probes["decode_error_checked"] += 1
        elif outcome == "none":
            if not at_boundary:
                res.add("C08", "misaligned", f"{ctx}: None returned in the middle of a frame (consumed up to {pos1})")
            first = [f for f in self.frames if f.start == pos0]
            if not F and first and avail0 >= (first[0].end - first[0].start):
                res.add("C08", "no_progress", f"{ctx}: a whole frame was available but nothing was consumed")
        elif outcome == "lost":
            lost_ok = True
            if self.closed_kind is None:
                res.add("C08", "spurious_connection_lost", f"{ctx}: ConnectionLost although the server never closed")
            else:
                # legitimate only if no complete deciding frame was left in the stream
                rest = [f for f in self.frames if f.start >= pos0 and f.end <= self.closed_at]
                for f in rest:
                    if not self.skippable(f, sub, sub_all, ack, sync):
                        res.add("C08", "frame_lost_at_close",
                                f"{ctx}: ConnectionLost raised although complete frame {f.kind} type={f.mtype} "
                                f"(bytes {f.start}-{f.end}) was readable before the close at {self.closed_at}")
                        break
            if c.connected:
                res.add("C08", "still_connected", f"{ctx}: ConnectionLost was raised ({self.closed_kind}) but "
                                                  f"client.connected is still True",
                        sig="still_connected:" + str(self.closed_kind))
            else:
                res.probes["lost_checked_" + str(self.closed_kind)] += 1
        if outcome != "lost" and not at_boundary and not (outcome in ("unknown", "invalid")):
            pass

    # ------------------------------------------------------------------ run
    def model_sub(self, k, ts):
        """reference semantics of the client's subscription set (what 'currently subscribed' means)"""
        if k in ("all",):
            self.mall, self.msub = True, set()
        elif k in ("unall", "pauseall"):
            self.mall, self.msub = False, set()
        elif self.mall:
            return              # individual requests are refused while subscribed to all types
        elif k in ("sub", "resume"):
            self.msub |= set(ts)
        else:
            self.msub -= set(ts)

    def change_subscription(self):
        ch = self.ch
        c = self.client
        from pyrtma.exceptions import ClientError
        k = ch.weighted("sub.kind", [(4, "sub"), (2, "unsub"), (1, "pause"), (1, "resume"), (1, "all"), (1, "unall"),
                                     (1, "pauseall")])
        ts = [ch.choose("sub.t", GOOD_TYPES + [C.MT_ACKNOWLEDGE, SCRATCH_TYPE, SCRATCH_TYPE])]
        if ch.flag("sub.two", 1, 3):
            ts.append(ch.choose("sub.t", GOOD_TYPES + [SCRATCH_TYPE]))
        try:
            self.model_sub(k, ts)
            if k == "sub":
                c.subscribe(ts)
            elif k == "unsub":
                c.unsubscribe(ts)
            elif k == "pause":
                c.pause_subscription(ts)
            elif k == "resume":
                c.resume_subscription(ts)
            elif k == "all":
                c.subscribe([ALL])
            elif k == "pauseall":
                c.pause_subscription([ALL])
            else:
                c.unsubscribe([ALL])
            self.t(f"client {k} {ts if k not in ('all', 'unall', 'pauseall') else ''}")
        except ClientError as e:
            self.t(f"client {k} -> {type(e).__name__}")
        if self.srv is not None:
            del self.srv.rx_inflight[:]

    def run(self) -> RunResult:
        """one or two sessions in one run; the second uses the other header layout (a process may host
        clients of both kinds)"""
        ch = self.ch
        first_tc = bool(ch.pick("cfg.timecode", 2))
        two = (not self.forced) and ch.flag("cfg.second_session", 1, 3)
        res = self.session(first_tc)
        if two and not res.violations:
            keep = (list(res.trace), res.probes.copy(), res.stats.copy(), res.sim_seconds)
            self.__init__(ch, self.forced)
            self.res.trace = keep[0] + ["--- second session, other header layout ---"]
            self.res.probes.update(keep[1])
            self.res.stats.update(keep[2])
            self.res.probes["second_session"] += 1
            res = self.session(not first_tc)
            import hashlib
            res.digest = hashlib.sha256(("|".join(res.trace)).encode()).hexdigest()
            res.sim_seconds += keep[3]
        return res

    def session(self, timecode) -> RunResult:
        res = self.res
        ch = self.ch
        self.timecode_wanted = timecode
        try:
            try:
                self.setup()
            except Exception as e:
                from pyrtma.exceptions import RTMAMessageError, ClientError
                if isinstance(e, (RTMAMessageError, ClientError)) and getattr(self, "srv", None) is not None:
                    # the scripted server answered the handshake with a well-formed ACKNOWLEDGE
                    res.add("C08", "good_frame_rejected_during_connect",
                            f"Client.connect() failed on the server's well-formed acknowledgement: {type(e).__name__}: {str(e)[:120]}",
                            sig="good_frame_rejected_during_connect")
                    return res
                raise
            c = self.client
            init = [ch.choose("init.t", GOOD_TYPES + [SCRATCH_TYPE]), ch.choose("init.t", GOOD_TYPES + [SCRATCH_TYPE])]
            self.model_sub("sub", init)
            c.subscribe(init)
            f = self.forced
            n = 3 + ch.pick("cfg.nops", 20)
            forced_close = f.get("close_after_frames")
            i = 0
            lost = False
            while i < n and not lost and not res.violations:
                i += 1
                if forced_close is not None and len(self.frames) >= forced_close and self.closed_kind is None:
                    # enumerated crash point: close at byte offset k of the last frame fed
                    last = self.frames[-1]
                    keep_total = last.start + f["offset"]
                    self.server_close(f["way"], keep=max(0, keep_total - self.consumed))
                op = ch.weighted("op.kind", [(12, "feed"), (14, "read"), (4, "sub"), (2, "close"), (4, "arrive"), (2, "redefine"),
                                             (1, "qlload"), (2, "discard")])
                if self.closed_kind is not None and op in ("feed", "close"):
                    op = "read"
                if op == "feed":
                    for _ in range(1 + ch.pick("fd.n", 3)):
                        self.feed_one(f.get("kind") if forced_close is not None and len(self.frames) + 1 == forced_close else None)
                elif op == "read":
                    if self.do_read() == "lost":
                        lost = True
                elif op == "discard":
                    if self.do_discard() == "lost":
                        lost = True
                elif op == "sub":
                    self.change_subscription()
                    if not c.connected:
                        lost = True
                elif op == "qlload":
                    self.load_quicklogger_file()
                elif op == "redefine":
                    # frames already queued keep their old layout: they must now be judged against the new one
                    self.define_scratch((self.scratch_layout + 1 + ch.pick("rd.layout", 2)) % 3)
                    self.res.probes["scratch_redefined"] += 1
                    self.t(f"message type {SCRATCH_TYPE} re-registered with layout {self.scratch_layout}")
                elif op == "arrive":
                    s = self.csock
                    if s.rx_inflight:
                        self._arrive(s, 1 + ch.pick("ar.n", len(s.rx_inflight)))
                elif op == "close" and forced_close is None and ch.flag("cl.do", 1, 2):
                    self.server_close(ch.choose("cl.kind", ["fin", "rst"]))
            # drain: keep reading until the stream is exhausted (or the connection is lost)
            guard = 0
            # some applications only ever poll (timeout 0): the drain is then done with polling reads only
            poll_only = ch.flag("dr.poll_only", 1, 3)
            stuck = 0
            if poll_only:
                res.probes["drain_by_polling"] += 1
            while not lost and not res.violations and guard < 60:
                guard += 1
                if self.consumed >= self.stream_len and self.closed_kind is None:
                    break
                if self.closed_kind is not None and guard > 40:
                    break
                self._arrive_all(self.csock)      # whatever is still in flight has arrived by now
                if poll_only and self.closed_kind is not None:
                    s_ = self.csock               # ... including the server's FIN / RST
                    if s_.rx_fin == 1 or s_.rx_rst == 1:
                        s_.arrive()
                        if s_.rx_rst == 1:
                            s_.arrive_rst_now()
                before_ = self.consumed
                if self.do_read(poll_only=poll_only) == "lost":
                    lost = True
                elif poll_only and self.closed_kind is not None:
                    stuck = stuck + 1 if self.consumed == before_ else 0
            if self.closed_kind is not None and not lost and not res.violations:
                # after the close, with everything readable consumed, the next read must report the loss
                if self.consumed >= self.closed_at:
                    if self.do_read() != "lost":
                        res.add("C08", "loss_not_reported", "the server closed and the stream is exhausted, but "
                                                            "read_message did not raise ConnectionLost")
                elif poll_only and stuck >= 5:
                    # polling reads after everything (and the end of the stream) had arrived
                    res.add("C08", "loss_not_reported", "the server closed inside a frame and everything it sent has "
                            f"arrived, but the last {stuck} polling reads (timeout 0) neither consumed anything nor raised ConnectionLost",
                            sig="loss_not_reported_polling")
            if lost:
                from pyrtma.exceptions import NotConnectedError
                try:
                    c.read_message(timeout=0)
                    if not c.connected:
                        res.add("C08", "read_after_loss", "read_message worked on a disconnected client")
                except NotConnectedError:
                    res.probes["disconnected_state_checked"] += 1
                except Exception:
                    pass
        except SimStall as e:
            # somewhere in a call of the client API the reader waits for bytes that no frame of the script declares,
            # while the scripted server keeps sending: it has lost the framing (on an intact stream every read ends)
            if getattr(self, "handshake_done", False):
                res.add("C08", "misaligned", f"the client waits for ever for more payload than any frame declares ({e})",
                        sig="reader_waits_for_ever")
            else:
                raise
        finally:
            if getattr(self, "client", None) is not None:
                self.client._connected = False
            try:
                import pyrtma.message as PM
                PM._msg_defs.pop(SCRATCH_TYPE, None)
            except Exception:
                pass
            w = self.w
            res.stats.update({k: v for k, v in w.net.stats.items() if v})
            res.digest = w.digest() + str(self.consumed) + str(len(self.frames))
            import hashlib
            res.digest = hashlib.sha256(("|".join(res.trace)).encode()).hexdigest()
            res.sim_seconds = w.clock.advanced
            res.n_choices = len(ch.trace)
            res.nontrivial = len({f.kind for f in self.frames}) > 1 or self.closed_kind is not None
            w.teardown()
        return res


def run(choices, forced=None) -> RunResult:
    return ReadPathRun(choices, forced).run()


def det_cases(tier):
    """server close at every byte offset of every frame kind, FIN and RST"""
    cases = []
    for kind in ("good", "good_unsub", "ack", "unknown", "wrong_size", "wrong_version", "version0", "zero_len"):
        for off in range(0, 150):
            for way in ("fin", "rst"):
                for nfr in (1, 2):
                    cases.append(dict(kind=kind, offset=off, way=way, close_after_frames=nfr))
    if tier == "quick":
        cases = cases[::13]
    return cases
