"""Harness `datalogger` (C17): the real DataCollection / DataSet / formatters with the recording
side and the background writer scheduled by the simulator at every synchronisation operation."""
from __future__ import annotations

import hashlib
import os
import shutil
import struct
import sys
import tempfile

from sim import codec as C
from sim.net import Clock, SimStall
from sim.simthreading import Sched, SimThreading
from sim.baton import TaskHung
from sim.choices import ChoiceBudgetExceeded
from .base import RunResult

ALL = C.ALL_MESSAGE_TYPES
MSG_TYPES = [26, 32, 0, 8, 14]          # MODULE_READY, CLIENT_INFO, EXIT, FAILED_MESSAGE, DISCONNECT
def _scratch():
    return os.environ.get("VERIF_SCRATCH", "/tmp")
_QLDEFS_DIR = None


class FakeTimeDL:
    def __init__(self, clock):
        self._c = clock

    def time(self):
        return self._c.epoch + self._c.now

    def perf_counter(self):
        return self._c.now

    def sleep(self, d):
        self._c.advance(d)


def qldefs_path():
    """a minimal definitions module that only re-exports the core definitions"""
    global _QLDEFS_DIR
    if _QLDEFS_DIR is None or not os.path.exists(_QLDEFS_DIR):
        _QLDEFS_DIR = tempfile.mkdtemp(prefix="verif_qldefs_", dir=_scratch())
        with open(os.path.join(_QLDEFS_DIR, "verif_qldefs.py"), "w") as f:
            f.write("from pyrtma.core_defs import *\n")
    return os.path.join(_QLDEFS_DIR, "verif_qldefs.py")


USER_TYPE = 5100
USER_DEF_SRC = """import pyrtma
from pyrtma.core_defs import *
from pyrtma.message_base import MessageMeta
from pyrtma.validators import Int32


@pyrtma.message_def
class MDF_VERIF_USER(pyrtma.MessageData, metaclass=MessageMeta):
    type_id = 5100
    type_name = "VERIF_USER"
    type_hash = 0x5100
    type_size = 8
    type_source = ""
    type_def = ""
    a: Int32 = Int32()
    b: Int32 = Int32()


MT_VERIF_USER = 5100

# what a compiled definitions file ends with
from pyrtma.context import _update_context
_update_context(__name__)
"""


def qldefs_user_path():
    """the definitions of a site that also has a message type of its own (the core-only file does not know it)"""
    base = os.path.dirname(qldefs_path())
    p = os.path.join(base, "verif_qldefs_user.py")
    if not os.path.exists(p):
        with open(p, "w") as f:
            f.write(USER_DEF_SRC)
    return p


class DataLoggerRun:
    def __init__(self, choices, forced=None):
        self.ch = choices
        self.forced = forced or {}
        self.res = RunResult()
        self.tmp = None
        self.expected = {}      # ds name -> [bytes(header)+bytes(data)]
        self.n_msgs = 0

    def t(self, s):
        self.res.trace.append(f"t={self.clock.now - 1000.0:.3f} {s}")

    # ------------------------------------------------------------------ setup
    def setup(self):
        import pyrtma.data_logger.data_collection as DCM
        import pyrtma.data_logger.data_set as DSM
        from pyrtma.data_logger.metadata import LoggingMetadata
        from pyrtma.data_logger.formatters.raw import RawFormatter
        from pyrtma.data_logger.formatters.json import JsonFormatter
        from pyrtma.data_logger.formatters.quicklogger import QLFormatter
        from pyrtma.data_logger.formatters.msg_headers import MsgHeaderFormatter
        ch = self.ch
        ch.cap = min(ch.cap, 300_000)      # bounds a run in which stop()/close() would spin for ever
        if self.forced.get("bulk"):
            ch.cap = 300_000 + 40 * int(self.forced["bulk"])
        self.DCM = DCM
        self.clock = Clock()
        self.sched = Sched(ch, self.clock, p_switch=ch.choose("cfg.pswitch", [(1, 2), (1, 4), (3, 4)]))
        self.sched.on_yield = self.on_yield
        self._patched = []
        self._set(DCM, "threading", SimThreading(self.sched))
        self._set(DCM, "time", FakeTimeDL(self.clock))
        self._set(DCM, "print", lambda *a, **k: None)
        self.write_period = ch.choose("cfg.write_period", [15.0, 1.0, 0.5, 3.0])
        self._set(DCM.DataCollection, "WRITE_PERIOD", self.write_period)
        self.tmp = tempfile.mkdtemp(prefix="verif_dl_", dir=_scratch())
        md = LoggingMetadata()
        self.md = md
        # in a third of the runs the file names take a value from the metadata (a recording number)
        self.rec_in_name = ch.flag("cfg.rec_in_name", 1, 3) and not self.forced
        if self.rec_in_name:
            md.update('{"rec": 1}')
        if ch.flag("cfg.tc_client_in_process", 1, 4):
            # the process also holds a (not connected) client of a time-code system; the recorder itself works with
            # plain headers throughout
            import pyrtma
            self.other_client = pyrtma.Client(module_id=0, timecode=True)
            self.res.probes["timecode_client_in_process"] += 1
        self.dc = DCM.DataCollection("coll", self.tmp, "run", md, use_thread=True)
        fm = {"raw": RawFormatter, "json": JsonFormatter, "quicklogger": QLFormatter, "msg_header": MsgHeaderFormatter}
        nds = 1 + ch.pick("cfg.nds", 3)
        if self.forced.get("bulk"):
            nds = 1
        self.sets = []
        fmts = [self.forced.get("formatter") or ch.choose("cfg.fmt", ["raw", "json", "quicklogger", "raw", "json", "quicklogger", "msg_header"])
                for _ in range(nds)]
        # messages with time-code headers only make sense for the raw format (the others are defined on the plain header)
        self.tc_msgs = all(f == "raw" for f in fmts) and ch.flag("cfg.tc_msgs", 1, 3)
        # message types at the top of the legal id range (definitions the quicklogger reader's file does not know)
        self.high_ids = ("quicklogger" not in fmts) and ch.flag("cfg.high_ids", 1, 3)
        self.msg_types = list(MSG_TYPES) + ([9999, 10000] if self.high_ids else [])
        if self.high_ids:
            self.register_high_ids()
            self.res.probes["high_type_ids"] += 1
        # a message type of the site's own: the quicklogger files are first looked at with the core-only
        # definitions (which skip it, as designed) and then read with the site's definitions
        self.user_type = ("quicklogger" in fmts) and not self.high_ids and ch.flag("cfg.user_type", 1, 3)
        if self.user_type:
            self.register_user_type()
            self.msg_types.append(USER_TYPE)
            self.res.probes["user_type_in_quicklogger"] += 1
        if self.tc_msgs:
            self.res.probes["timecode_headers"] += 1
        for i in range(nds):
            fmt = fmts[i]
            sel = ch.weighted("cfg.sel", [(4, "all"), (6, "some"), (2, "one"), (1, "dup"), (1, "all_plus")])
            if self.forced.get("bulk"):
                sel = "all"
            if sel == "all":
                types = [ALL]
            elif sel == "one":
                types = [ch.choose("cfg.t", [t for t in self.msg_types if t > 0])]
            elif sel == "dup":
                # a redundant selection: the same type listed more than once
                t1 = ch.choose("cfg.t", [t for t in self.msg_types if t > 0])
                types = [t1, ch.choose("cfg.t", [t for t in self.msg_types if t > 0]), t1]
                self.res.probes["redundant_selection"] += 1
            elif sel == "all_plus":
                # ... or all types next to explicit ones
                types = [ch.choose("cfg.t", [t for t in self.msg_types if t > 0]), ALL]
                self.res.probes["redundant_selection"] += 1
            else:
                types = [t for t in self.msg_types if t > 0 and ch.flag("cfg.tsel", 1, 2)] or [26]
            sub = ch.choose("cfg.subdiv", [0, 0, 30, 600])
            if self.forced.get("bulk"):
                sub = 0
            # (the file name may contain a dot, e.g. a version number taken from the metadata)
            fname = f"ds{i}" + ch.choose("cfg.fname_tail", ["", "", "_v1.5", ".part"])
            if self.rec_in_name:
                fname += "_r$(rec)"
            ds = DSM.DataSet("coll", f"ds{i}", "", fname, fm[fmt], sub, types, md)
            ds.verif_fname = fname.replace("$(rec)", "1")
            self.dc.add_data_set(ds)
            self.sets.append((ds, fmt, types, sub))
            self.expected[ds.name] = []
        # the configuration API may also replace or remove data sets before recording starts
        for _ in range(ch.pick("cfg.reconf", 3) if not self.forced.get("bulk") else 0):
            how = ch.choose("cfg.reconf_how", ["replace", "remove_add", "remove"])
            i = ch.pick("cfg.reconf_i", len(self.sets))
            old, fmt, types, sub = self.sets[i]
            if how == "remove" and len(self.sets) > 1:
                self.dc.rm_data_set(old.name)
                del self.sets[i]
                del self.expected[old.name]
                old.close()
                self.res.probes["dataset_removed"] += 1
                continue
            fmt2 = self.forced.get("formatter") or ch.choose("cfg.fmt2", ["raw", "json", "quicklogger"])
            if self.tc_msgs:
                fmt2 = "raw"
            elif self.high_ids and fmt2 == "quicklogger":
                fmt2 = "json"
            ds2 = DSM.DataSet("coll", old.name, "", old.file_name_fmt, fm[fmt2], sub, types, md)
            ds2.verif_fname = getattr(old, "verif_fname", old.name)
            if how == "remove_add":
                self.dc.rm_data_set(old.name)
            self.dc.add_data_set(ds2)
            old.close()
            self.sets[i] = (ds2, fmt2, types, sub)
            self.res.probes["dataset_replaced"] += 1
        self.res.config = dict(write_period=self.write_period, p_switch=list(self.sched.p_switch),
                               sets=[(fmt, ["ALL" if t == ALL else t for t in types], sub)
                                     for (_d, fmt, types, sub) in self.sets], forced=self.forced)
        self.atomic_writer_pair = not self.forced.get("allow_window", False) and self.forced.get("atomic_pair", False)

    def register_high_ids(self):
        import pyrtma
        from pyrtma.message_base import MessageMeta
        from pyrtma.validators import Int32

        def mk(tid):
            class MDF_HIGH(pyrtma.MessageData, metaclass=MessageMeta):
                type_id = tid
                type_name = f"HIGH_{tid}"
                type_hash = 0x4000 + tid
                type_size = 8
                type_source = ""
                type_def = ""
                a: Int32 = Int32()
                b: Int32 = Int32()
            return MDF_HIGH
        self.high_cls = {t: pyrtma.message_def(mk(t)) for t in (9999, 10000)}

    def register_user_type(self):
        import pyrtma
        from pyrtma.message_base import MessageMeta
        from pyrtma.validators import Int32

        class MDF_VERIF_USER(pyrtma.MessageData, metaclass=MessageMeta):
            type_id = USER_TYPE
            type_name = "VERIF_USER"
            type_hash = 0x5100
            type_size = 8
            type_source = ""
            type_def = ""
            a: Int32 = Int32()
            b: Int32 = Int32()
        self.user_cls = pyrtma.message_def(MDF_VERIF_USER)

    def _set(self, obj, name, value):
        missing = object()
        old = obj.__dict__.get(name, missing)
        self._patched.append((obj, name, old, missing))
        setattr(obj, name, value)

    def unpatch(self):
        for obj, name, old, missing in reversed(self._patched):
            if old is missing:
                try:
                    delattr(obj, name)
                except AttributeError:
                    pass
            else:
                setattr(obj, name, old)
        self._patched.clear()

    def on_yield(self, sched, label):
        """between any two steps the clock may move: flush / subdivision deadlines fall everywhere"""
        ch = self.ch
        if self.forced.get("bulk"):
            return          # (all of the messages arrive within one flush period and one file)
        if ch.flag("clk.move", 1, 6):
            wp = self.write_period
            dt = ch.choose("clk.dt", [0.01, 0.3, wp - 0.01, wp + 0.01, 29.9, 30.1, 0.6])
            self.clock.advance(dt)
            self.res.stats["clock_moves"] += 1

    # ------------------------------------------------------------------ messages
    def make_msg(self):
        import pyrtma
        import pyrtma.core_defs as cd
        ch = self.ch
        self.n_msgs += 1
        n = self.n_msgs
        t = ch.choose("msg.type", self.msg_types)
        if t in (9999, 10000):
            d = self.high_cls[t]()
            d.a = n
            d.b = -n
        elif t == USER_TYPE:
            d = self.user_cls()
            d.a = n
            d.b = -n
        elif t == 26:
            d = cd.MDF_MODULE_READY()
            d.pid = n
        elif t == 32:
            d = cd.MDF_CLIENT_INFO()
            d.uid = n
            d.name = f"m{n}"
            d.port = n % 60000
        elif t == 0:
            d = cd.MDF_EXIT()
        elif t == 8:
            d = cd.MDF_FAILED_MESSAGE()
            d.dest_mod_id = n % 100
            d.time_of_failure = float(n) if n % 5 else float("nan")     # (NaN is a legal value of a float field)
            d.msg_header.msg_type = n
        else:
            d = cd.MDF_DISCONNECT()
        if self.tc_msgs:
            from pyrtma.header import TimeCodeMessageHeader
            h = TimeCodeMessageHeader()
            h.utc_seconds = 1_700_000_000 + n
            h.utc_fraction = n * 7
        else:
            h = pyrtma.MessageHeader()
        h.msg_type = t
        h.msg_count = n
        h.send_time = 5000.0 + n
        h.recv_time = 6000.0 + n
        h.src_mod_id = 10 + (n % 5)
        h.num_data_bytes = d.type_size
        h.version = d.type_hash
        return pyrtma.Message(h, d), t

    # ------------------------------------------------------------------ ops
    def op_update(self, quiet=False):
        dc = self.dc
        msg, t = self.make_msg()
        recording = dc._recording and not dc._paused
        if recording:
            raw = bytes(msg.header) + bytes(msg.data)
            for ds, fmt, types, sub in self.sets:
                if ALL in types or t in types:
                    self.expected[ds.name].append(raw)
        if not quiet:
            self.t(f"update(msg #{self.n_msgs} type {t}){'' if recording else ' [not recording]'}")
        dc.update(msg)

    def run(self) -> RunResult:
        res = self.res
        ch = self.ch
        hung = False
        try:
            self.setup()
            dc = self.dc
            sched = self.sched
            started = False
            n_ops = self.forced.get("n_ops")
            if n_ops is None:
                n_ops = ch.choose("cfg.nops", [0, 1, 2, 3, 5, 8, 13, 25, 60, 200])
            self.t("start()")
            dc.start()
            started = True
            bulk = self.forced.get("bulk")
            if bulk:
                # a long recording: this many messages arrive between two flushes (no time passes)
                self.t(f"{bulk} x update(msg)")
                for _ in range(bulk):
                    self.op_update(quiet=True)
                self.res.probes[f"bulk_{bulk}"] += 1
            for _ in range(n_ops):
                k = ch.weighted("op.kind", [(14, "update"), (1, "none"), (1, "pause"), (1, "resume"), (2, "clock"),
                                            (1, "yield")])
                if k == "update":
                    self.op_update()
                elif k == "none":
                    self.t("update(None)")
                    dc.update(None)
                elif k == "pause":
                    self.t("pause()")
                    dc.pause()
                elif k == "resume":
                    self.t("resume()")
                    dc.resume()
                elif k == "clock":
                    wp = self.write_period
                    dt = ch.choose("op.dt", [0.1, wp - 0.01, wp + 0.01, 2 * wp + 0.1, 30.5, 600.5])
                    self.clock.advance(dt)
                    self.t(f"clock +{dt}")
                # update() touches no synchronisation object unless a flush is due: yield here too
                if ch.flag("op.yield", 1, 3):
                    sched.yield_point("op.boundary")
            self.t("stop()")
            dc.stop()
            self.res.probes["stops"] += 1
            self.check_files("after stop")
            nrec = 1
            while not res.violations and nrec < 3 and ch.flag("cfg.second_collection", 1, 4) and not self.forced:
                # another recording in the same collection object (new directory)
                nrec += 1
                self.restart(nrec)
            self.t("close()")
            dc.close()
        except ChoiceBudgetExceeded:
            dead = [st.name for st in self.sched.tasks if st.done and not st.is_main]
            res.add("C17", "never_returns", f"the recording side spun for ever in a wait loop (dead tasks: {dead}; "
                                            f"last op: {res.trace[-1] if res.trace else '?'})", sig="never_returns")
        except TaskHung as e:
            # a task that never comes back to a simulator call is blocked in something the simulator
            # does not own (e.g. a real lock inside another library): a harness limitation, not a verdict
            hung = True
            from sim.baton import SimInternalError
            raise SimInternalError(f"task hung outside the simulator's control: {e.where}")
        except SimStall as e:
            res.add("C17", "deadlock", f"recorder and writer deadlocked: {e}", sig="deadlock")
        except Exception as e:
            import traceback
            tb = traceback.extract_tb(e.__traceback__)
            inner = [f for f in tb if "/pyrtma/" in f.filename]
            where = f"{os.path.basename(inner[-1].filename)}:{inner[-1].name}" if inner else "?"
            res.add("C17", "exception", f"{type(e).__name__}: {e} at {where}", sig=f"exception:{type(e).__name__}@{where}")
            self.t(f"EXCEPTION {type(e).__name__}: {e}")
        finally:
            try:
                for st in self.sched.tasks:
                    if st.task.exc is not None and not isinstance(st.task.exc, (SimStall,)):
                        e = st.task.exc
                        res.add("C17", "writer_exception", f"the writer thread died: {type(e).__name__}: {e}",
                                sig=f"writer_exception:{type(e).__name__}")
                if not hung:
                    try:
                        self.dc._close = True
                        self.sched.kill_all()
                    except TaskHung:
                        pass
                for ds, *_ in self.sets:
                    try:
                        ds.close()
                        ft = getattr(ds.formatter, "data_tmp", None)
                        if ft is not None:
                            ft.close()
                    except Exception:
                        pass
                self.dc._dead = True
            finally:
                self.unpatch()
                if self.tmp:
                    shutil.rmtree(self.tmp, ignore_errors=True)
            h = hashlib.sha256()
            for ev in self.sched.log:
                h.update(repr(ev).encode())
            for l in res.trace:
                h.update(l.encode())
            res.digest = h.hexdigest()
            res.sim_seconds = self.clock.advanced
            res.n_choices = len(ch.trace)
            res.stats["task_switches"] += self.sched.switches
            res.nontrivial = self.sched.switches > 2 and self.n_msgs > 0
            self.classify_window()
        return res

    def restart(self, nrec=2):
        dc = self.dc
        ch = self.ch
        subdir = f"run{nrec}"
        if self.rec_in_name and ch.flag("cfg.same_folder", 1, 2):
            # the next recording goes into the same folder under other file names (the metadata changed in between)
            self.md.update('{"rec": %d}' % nrec)
            for ds, _f, _t, _s in self.sets:
                ds.verif_fname = ds.file_name_fmt.replace("$(rec)", str(nrec))
            subdir = "run"
            dc.dir_fmt = subdir
            self.res.probes["further_recording_same_folder"] += 1
            self.t(f"metadata rec={nrec}: the next recording goes into the same folder")
        else:
            # new save directory for this recording
            dc.dir_fmt = subdir
        for k in self.expected:
            self.expected[k] = []
        self.t("start() again")
        dc.start()
        for _ in range(ch.pick("cfg.nops2", 10)):
            if ch.flag("op2.clock", 1, 5):
                wp = self.write_period
                dt = ch.choose("op2.dt", [0.1, wp + 0.01, 30.5, 600.5])
                self.clock.advance(dt)
                self.t(f"clock +{dt}")
            else:
                self.op_update()
            if ch.flag("op.yield", 1, 3):
                self.sched.yield_point("op.boundary")
        self.t("stop()")
        dc.stop()
        self.check_files(f"after stop #{nrec}", subdir=subdir)
        self.res.probes["second_recording"] += 1
        if nrec > 2:
            self.res.probes["third_recording"] += 1

    # ------------------------------------------------------------------ oracle
    def read_back(self, ds, fmt, subdir):
        """the sequence of header+data byte strings found in the data set's files, in subdivision order"""
        import pyrtma
        from pyrtma.utils.quicklogger_reader import QLReader
        d = os.path.join(self.tmp, subdir)
        ext = ds.formatter_cls.ext
        files = []
        base = getattr(ds, "verif_fname", ds.name)
        first = os.path.join(d, f"{base}{ext}")
        if os.path.exists(first):
            files.append(first)
        i = 1
        while True:
            p = os.path.join(d, f"{base}_{i:04d}{ext}")
            if not os.path.exists(p):
                break
            files.append(p)
            i += 1
        out = []
        if len(files) > 1:
            self.res.probes["subdivided_files"] += 1
        for p in files:
            if fmt == "raw":
                data = open(p, "rb").read()
                pos = 0
                hs = 56 if self.tc_msgs else 48
                while len(data) - pos >= hs:
                    n = struct.unpack_from("<i", data, pos + 32)[0]
                    if n < 0 or len(data) - pos - hs < n:
                        break
                    out.append(data[pos:pos + hs + n])
                    pos += hs + n
                if pos != len(data):
                    self.res.add("C17", "raw_torn", f"{os.path.basename(p)}: {len(data) - pos} stray bytes at the end")
            elif fmt == "msg_header":
                lines = open(p, "rt").read().splitlines()
                if not lines:
                    self.res.add("C17", "csv_no_header", f"{os.path.basename(p)} is empty")
                    continue
                cols = lines[0].split(",")
                for line in lines[1:]:
                    vals = line.split(",")
                    row = dict(zip(cols, vals))
                    out.append(("hdr", int(row["msg_type"]), int(row["msg_count"]), float(row["send_time"])))
            elif fmt == "json":
                for line in open(p, "rt").read().splitlines():
                    if not line.strip():
                        continue
                    m = pyrtma.Message.from_json(line)
                    out.append(bytes(m.header) + bytes(m.data))
            else:
                r = QLReader()
                import io
                import contextlib
                with contextlib.redirect_stdout(io.StringIO()):
                    r.load(p, qldefs_path())
                    if getattr(self, "user_type", False):
                        n_core = len(r.messages) + r.skipped
                        if r.skipped:
                            self.res.probes["ql_type_skipped_by_core_definitions"] += 1
                        r = QLReader()
                        r.load(p, qldefs_user_path())
                        if len(r.messages) + r.skipped != n_core:
                            self.res.add("C17", "ql_header_count", f"{os.path.basename(p)}: {n_core} messages with the core "
                                         f"definitions, {len(r.messages) + r.skipped} with the site's definitions")
                fh = r.file_header
                if fh.num_messages != len(r.messages) + r.skipped:
                    self.res.add("C17", "ql_header_count", f"{os.path.basename(p)}: header says {fh.num_messages} messages, "
                                                           f"reader found {len(r.messages)}")
                size = os.path.getsize(p)
                if fh.total_bytes != size:
                    self.res.add("C17", "ql_header_bytes", f"{os.path.basename(p)}: header total_bytes={fh.total_bytes}, "
                                                           f"file size {size}")
                out += [bytes(m.header) + bytes(m.data) for m in r.messages]
                self.res.probes["ql_files_read"] += 1
        return out, files

    def check_files(self, when, subdir="run"):
        res = self.res
        for ds, fmt, types, sub in self.sets:
            exp = self.expected[ds.name]
            if fmt == "msg_header":
                # the csv formatter only records headers: compare (type, count, send_time)
                exp = [("hdr",) + struct.unpack_from("<ii", b, 0) + struct.unpack_from("<d", b, 8) for b in exp]
            try:
                got, files = self.read_back(ds, fmt, subdir)
            except Exception as e:
                res.add("C17", "unreadable", f"{ds.name} ({fmt}) {when}: read-back failed: {type(e).__name__}: {e}",
                        sig=f"unreadable:{fmt}:{type(e).__name__}")
                continue
            res.probes[f"checked_{fmt}"] += 1
            if len(exp) == 0:
                res.probes["empty_sequence"] += 1
            if len(exp) == 1:
                res.probes["single_message"] += 1
            if got == exp:
                continue
            ids = lambda seq: [(b[2] if isinstance(b, tuple) else struct.unpack_from("<i", b, 4)[0]) for b in seq]
            gi, ei = ids(got), ids(exp)
            if sorted(gi) == sorted(ei) and gi != ei:
                clause = "reordered"
            elif len(set(gi)) < len(gi):
                clause = "duplicated"
            elif set(ei) - set(gi):
                clause = "lost"
            elif set(gi) - set(ei):
                clause = "extra"
            else:
                clause = "modified"
            res.add("C17", clause, f"{ds.name} ({fmt}, {len(files)} file(s)) {when}: expected messages #{ei[:40]} "
                                   f"found #{gi[:40]}", sig=f"{clause}")

    def classify_window(self):
        """was the known writer window (clear ... late set) hit?  (history-based attribution)"""
        log = self.sched.log
        for ev in log:
            if ev[1] == "SWITCH" and str(ev[4]).endswith("acquire:blocked"):
                self.res.probes["lock_contended"] += 1
                break
        nflush = sum(1 for ev in log if ev[1] == "SET" and ev[2] == "recorder" and ev[3] == "ev1")
        if nflush:
            self.res.probes["runs_with_flush"] += 1
        if nflush > 2:
            self.res.probes["runs_with_3+_flushes"] += 1
        if any(ev[1] == "IS_SET" and ev[2] == "recorder" and ev[3] == "ev1" and ev[4] for ev in log):
            self.res.probes["writer_busy_seen"] += 1
        last_clear = None
        rec_set_since_clear = False
        for ev in log:          # one pass (the log is in sequence order)
            if ev[1] == "CLEAR" and ev[2].startswith("writer") and ev[3] == "ev1":
                last_clear = ev[0]
                rec_set_since_clear = False
            elif ev[1] == "SET" and ev[2] == "recorder" and ev[3] == "ev1":
                if last_clear is not None:
                    rec_set_since_clear = True
            elif ev[1] == "SET" and ev[2].startswith("writer") and ev[3] == "ev2":
                if last_clear is not None and rec_set_since_clear:
                    self.res.probes["writer_window_hit"] += 1
                    self.res.window_hit = True
                last_clear = None
                rec_set_since_clear = False


def run(choices, forced=None) -> RunResult:
    return DataLoggerRun(choices, forced).run()


def det_cases(tier):
    cases = []
    for fmt in ("raw", "json", "quicklogger"):
        for n in (0, 1, 2, 3, 5, 8):
            for rep in range(4 if tier == "quick" else 40):
                cases.append(dict(formatter=fmt, n_ops=n, rep=rep))
    # long recordings: exactly 4096 / 8192 messages in one quicklogger file, and more than 65536 messages handed
    # over between the last flush and stop()
    cases.append(dict(formatter="quicklogger", n_ops=0, bulk=4096, wall_s=300))
    cases.append(dict(formatter="quicklogger", n_ops=2, bulk=8192, wall_s=300))
    cases.append(dict(formatter="raw", n_ops=0, bulk=66000, wall_s=600))
    if tier == "thorough":
        cases.append(dict(formatter="quicklogger", n_ops=0, bulk=66000, wall_s=900))
        cases.append(dict(formatter="json", n_ops=0, bulk=66000, wall_s=900))
    return cases
