"""Harness `clientsub` (C02): real pyrtma.Client against the real manager; client and manager must
agree on the subscription set after any sequence of subscription operations."""
from __future__ import annotations

import logging
import warnings

from sim import codec as C
from sim.actors import Actor, TAG_BASE
from sim.world import World, ManagerCrashed
from .base import RunResult

ALL = C.ALL_MESSAGE_TYPES
UNIVERSE = [1000, 1001, 1002, 1003, 1004]


class ClientSubRun:
    def __init__(self, choices, forced=None):
        self.ch = choices
        self.res = RunResult()
        self.forced = forced
        self.w = None
        self.client = None
        self.last_delivered = None
        self.states = set()

    def t(self, s):
        self.res.trace.append(s)

    # ------------------------------------------------------------------
    def setup(self):
        import pyrtma
        ch = self.ch
        timecode = bool(ch.pick("cfg.timecode", 2))
        lvl = ch.weighted("cfg.loglevel", [(4, logging.ERROR), (1, logging.INFO), (1, logging.DEBUG)])
        nuni = 3 + ch.pick("cfg.nuni", 3)
        # a third of the runs use the ids of the manager's own status messages (FAILED_MESSAGE, MESSAGE_TRAFFIC,
        # ACTIVE_CLIENTS, CLIENT_INFO, CLIENT_CLOSED, TIMING_MESSAGE) or a mix of both as the universe
        uk = ch.weighted("cfg.universe", [(4, "user"), (1, "status"), (1, "mixed"), (1, "edge")])
        if uk == "user":
            self.uni = UNIVERSE[:nuni]
        elif uk == "status":
            self.uni = [33, 80, 8, 30, 31, 32][:nuni + 1]
        elif uk == "edge":
            # the ends of the id range: EXIT (0), 1, the last ids the statistics cover
            self.uni = [0, -7, 10000, 1, 9999][:nuni]
        else:
            self.uni = [1000, 33, 1001, 80, 8][:nuni]
        self.res.config = dict(timecode=timecode, loglevel=lvl, universe=self.uni)
        self.w = World(ch, timecode=timecode, log_level=lvl, send_msg_timing=bool(ch.pick("cfg.timing", 2)),
                       p_notwritable=(0, 1))
        self.w.patch()
        self.w.start_manager()
        self.prober = Actor(self.w, "prober")
        self.prober.open()
        self.prober.handshake("v2v1", req_id=70, name=b"prober")
        self.twin = None
        multi = ch.flag("cfg.twin", 1, 3)
        self.client = pyrtma.Client(module_id=11, timecode=timecode)
        self.w.register_client_logger(self.client)
        self.client.connect(f"127.0.0.1:{self.w.PORT}", allow_multiple=multi)
        if multi:
            # a second instance of the same module (same id), with its own subscriptions
            self.twin = pyrtma.Client(module_id=11, timecode=timecode)
            self.w.register_client_logger(self.twin)
            self.twin.connect(f"127.0.0.1:{self.w.PORT}", allow_multiple=True)
            self.res.probes["twin_instance"] += 1
        self.w.quiesce()
        self.drain()
        if self.twin is not None:
            self.drain(self.twin)
        if ch.flag("cfg.stall", 1, 3):
            # from now on the client's own socket is occasionally unable to take data for a while
            self.w.p_peer_stall = (1, 10)

    def drain(self, who=None):
        """parse and empty what sits on the client's socket; returns delivered probe types"""
        s = (who or self.client)._sock
        s.arrive()
        frames, left = C.split_frames(self.w.timecode, bytes(s.rx_arrived))
        del s.rx_arrived[:]
        if left:
            self.res.add("C02", "sim_internal", "partial frame on client socket")
        return [h for h, _p in frames]

    def concurrent_ops(self):
        """the two Client objects of this process change their subscriptions at the same time from two threads;
        the scheduler may switch between them at any line of the client module"""
        import sys
        from pyrtma.exceptions import InvalidSubscription
        ch = self.ch
        w = self.w
        c, tw = self.client, self.twin
        if tw is None or not tw.connected:
            return
        baton = w.baton
        main = baton.main
        k1 = ch.choose("cc.k1", ["subscribe", "unsubscribe", "pause", "resume"])
        k2 = ch.choose("cc.k2", ["subscribe", "unsubscribe", "pause", "resume"])
        l1 = self.arg_list("cc.a1")
        l2 = self.arg_list("cc.a2")
        state = {"other": None, "done2": False}

        def local(frame, event, arg):
            if event == "line" and ch.flag("cc.switch", 1, 4):
                me = baton.current
                if me is main:
                    t2 = state["other"]
                    if t2 is not None and not t2.done:
                        baton.switch(t2)
                else:
                    baton.switch(main)
            return local

        def tracer(frame, event, arg):
            if event == "call" and frame.f_code.co_filename.endswith("pyrtma/client.py"):
                return local
            return None

        def call(cl, kind, lst):
            try:
                {"subscribe": cl.subscribe, "unsubscribe": cl.unsubscribe, "pause": cl.pause_subscription,
                 "resume": cl.resume_subscription}[kind](lst)
            except InvalidSubscription:
                pass

        def second():
            sys.settrace(tracer)
            try:
                call(tw, k2, l2)
            finally:
                sys.settrace(None)
                state["done2"] = True

        t2 = baton.spawn("twin_thread", second)
        state["other"] = t2
        self.t(f"concurrently: client {k1}({['ALL' if x == ALL else x for x in l1]}) / twin {k2}({['ALL' if x == ALL else x for x in l2]})")
        sys.settrace(tracer)
        try:
            call(c, k1, l1)
        finally:
            sys.settrace(None)
        guard = 0
        while not t2.done:
            guard += 1
            if guard > 100000:
                break
            baton.switch(t2)
        self.res.probes["concurrent_client_ops"] += 1
        self.check_agreement("concurrent subscription changes by two clients of the process")

    def racing_probe(self, what):
        """Probes are published while the client's request frames are still in flight, so both may be ready
        in the same select round.  Whatever the service order, a probe that the manager reads AFTER all of the
        client's request frames must be routed according to the state the client reports."""
        w = self.w
        net = w.net
        c = self.client
        cconn = c._sock.peer.idx
        tags = {}
        for t in self.uni:
            raw = self.prober.frame(t, b"r")
            tags[self.prober.sent[-1].tag] = t
            self.prober.send_raw(raw)
        w.quiesce()
        got = {h.msg_type for h in self.drain() if h.send_time in tags}
        if self.twin is not None and self.twin.connected:
            self.drain(self.twin)
        ctl = [fr.done_seq for fr in net.reads if fr.conn == cconn and fr.seq > self.op_start_seq]
        last_ctl = max(ctl) if ctl else 0
        sub = c.subscribed_types
        want = set(self.uni) if sub == {ALL} else set(sub)
        checked = 0
        for fr in net.reads:
            tag = fr.hdr.send_time
            if tag in tags and fr.seq > last_ctl:
                t = tags[tag]
                checked += 1
                if (t in got) != (t in want):
                    self.res.add("C02", "disagreement_racing",
                                 f"after {what}: a message of type {t} read by the manager right after the client's "
                                 f"request frames was {'delivered' if t in got else 'not delivered'}, while the client "
                                 f"reports subscribed={self.fmt(sub)}", sig="disagreement_racing")
                    break
        if checked:
            self.res.probes["racing_probes_checked"] += checked
        if any(fr.hdr.send_time in tags and fr.seq < last_ctl for fr in net.reads):
            self.res.probes["racing_probe_overtook_request"] += 1

    def probe(self):
        """the set of universe types the manager delivers to the client right now"""
        w = self.w
        w.quiesce()
        self.drain()
        if self.twin is not None and self.twin.connected:
            self.drain(self.twin)
        tags = {}
        for t in self.uni:
            raw = self.prober.frame(t, b"p")
            tags[self.prober.sent[-1].tag] = t
            self.prober.send_raw(raw)
        w.quiesce()
        got = self.drain()
        delivered = set()
        for h in got:
            if h.send_time in tags:
                if h.msg_type in delivered:
                    self.res.add("C02", "duplicate_delivery", f"type {h.msg_type} delivered twice to the client")
                delivered.add(h.msg_type)
        if self.twin is not None and self.twin.connected:
            tgot = {h.msg_type for h in self.drain(self.twin) if h.send_time in tags}
            tsub = self.twin.subscribed_types
            twant = set(self.uni) if tsub == {ALL} else set(tsub)
            if tgot != twant:
                self.res.add("C02", "disagreement_twin",
                             f"second instance of module 11 reports subscribed={self.fmt(tsub)} but the manager "
                             f"delivers {sorted(tgot)} to it", sig="disagreement_twin")
        return delivered

    # ------------------------------------------------------------------ argument shapes
    def arg_list(self, label):
        ch = self.ch
        c = self.client
        shape = ch.weighted(label + ".shape", [(4, "single"), (4, "several"), (2, "dups"), (2, "in_target"),
                                              (2, "all"), (1, "all_mixed"), (1, "empty"), (1, "every")])
        u = self.uni
        if shape == "single":
            return [ch.choose(label + ".t", u)]
        if shape == "several":
            k = 2 + ch.pick(label + ".k", len(u) - 1)
            out = []
            for _ in range(k):
                t = ch.choose(label + ".t", u)
                if t not in out:
                    out.append(t)
            return out
        if shape == "dups":
            t = ch.choose(label + ".t", u)
            t2 = ch.choose(label + ".t", u)
            return [t, t2, t, t]
        if shape == "in_target":
            cur = sorted(c.subscribed_types - {ALL}) or sorted(c.paused_subscribed_types) or [u[0]]
            return cur[:1 + ch.pick(label + ".k", len(cur))]
        if shape == "all":
            return [ALL]
        if shape == "all_mixed":
            return [ch.choose(label + ".t", u), ALL, ch.choose(label + ".t", u)]
        if shape == "empty":
            return []
        return list(u)

    def ctx_list(self, label):
        """list for a scoped context: individual types overlapping the current state in any position"""
        ch = self.ch
        k = 1 + ch.pick(label + ".k", len(self.uni))
        out = []
        for _ in range(k):
            out.append(ch.choose(label + ".t", self.uni))
        if ch.flag(label + ".uniq", 2, 3):
            seen = []
            for t in out:
                if t not in seen:
                    seen.append(t)
            out = seen
        return out

    # ------------------------------------------------------------------ oracle after each op
    def check_agreement(self, what, expect_unchanged=None):
        res = self.res
        c = self.client
        delivered = self.probe()
        sub = c.subscribed_types
        paused = c.paused_subscribed_types
        want = set(self.uni) if sub == {ALL} else set(sub)
        self.states.add((tuple(sorted(sub)), tuple(sorted(paused))))
        if ALL in sub and sub != {ALL}:
            res.add("C02", "client_state", f"after {what}: client reports {sorted(sub)} (ALL mixed with individual types)")
        if delivered != want:
            res.add("C02", "disagreement",
                    f"after {what}: client reports subscribed={self.fmt(sub)} paused={self.fmt(paused)} but the manager "
                    f"delivers {sorted(delivered)}")
        if sub & paused:
            res.add("C02", "paused_and_subscribed", f"after {what}: {sorted(sub & paused)} both subscribed and paused")
        if paused & delivered:
            res.add("C02", "paused_delivered", f"after {what}: paused types {sorted(paused & delivered)} are delivered")
        if expect_unchanged is not None:
            s0, p0, d0 = expect_unchanged
            if (sub, paused) != (s0, p0) or delivered != d0:
                res.add("C02", "refused_op_changed_state",
                        f"{what} was refused but state went from sub={self.fmt(s0)} paused={self.fmt(p0)} delivered={sorted(d0)} "
                        f"to sub={self.fmt(sub)} paused={self.fmt(paused)} delivered={sorted(delivered)}")
        self.last_delivered = delivered
        return delivered

    @staticmethod
    def fmt(s):
        return ["ALL" if x == ALL else x for x in sorted(s)]

    # ------------------------------------------------------------------ ops
    def one_op(self):
        from pyrtma.exceptions import InvalidSubscription
        ch = self.ch
        c = self.client
        res = self.res
        kind = ch.weighted("op.kind", [(5, "subscribe"), (4, "unsubscribe"), (4, "pause"), (4, "resume"),
                                       (1, "unsub_all"), (1, "pause_all"), (1, "resume_all"),
                                       (4, "sub_ctx"), (4, "pause_ctx"), (1, "reconnect"), (1, "drop_reconnect"),
                                       (3 if self.twin is not None else 0, "concurrent"), (1, "short_read"),
                                       (2, "read_ack")])
        if self.twin is not None and self.twin.connected and ch.flag("op.twin", 1, 3):
            tl = self.arg_list("twin")
            tk = ch.choose("twin.kind", ["subscribe", "unsubscribe", "pause", "resume"])
            try:
                {"subscribe": self.twin.subscribe, "unsubscribe": self.twin.unsubscribe,
                 "pause": self.twin.pause_subscription, "resume": self.twin.resume_subscription}[tk](tl)
                self.t(f"twin {tk}({['ALL' if x == ALL else x for x in tl]})")
            except InvalidSubscription:
                pass
        s0, p0 = c.subscribed_types, c.paused_subscribed_types
        d0 = self.last_delivered if self.last_delivered is not None else self.probe()
        self.op_start_seq = self.w.net.seq
        racing = ch.flag("op.racing", 1, 3)
        if racing and kind in ("subscribe", "unsubscribe", "pause", "resume"):
            # messages of every type from a second publisher are in flight before the request is even written
            if getattr(self, "prober2", None) is None:
                self.prober2 = Actor(self.w, "prober2")
                self.prober2.open()
                self.prober2.handshake("v2v1", req_id=71, name=b"prober2")
                self.w.quiesce()
                self.drain()
                self.op_start_seq = self.w.net.seq
            for t in self.uni:
                self.prober2.send_raw(self.prober2.frame(t, b"e"))
        self.res.probes[f"op_{kind}"] += 1
        if s0 == {ALL}:
            self.res.probes["op_while_sub_all"] += 1
        try:
            if kind in ("subscribe", "unsubscribe", "pause", "resume"):
                lst = self.arg_list("arg")
                cont = ch.weighted("arg.container", [(5, "list"), (2, "tuple"), (2, "set"), (1, "dict_keys")])
                if cont == "tuple":
                    lst = tuple(lst)
                elif cont == "set":
                    lst = set(lst)
                elif cont == "dict_keys":
                    lst = dict.fromkeys(lst).keys()
                what = f"{kind}({self.fmt(lst) if lst else []})"
                what = f"{kind}({cont} {['ALL' if x == ALL else x for x in lst]})"
                self.t(what)
                {"subscribe": c.subscribe, "unsubscribe": c.unsubscribe, "pause": c.pause_subscription,
                 "resume": c.resume_subscription}[kind](lst)
                if racing:
                    self.racing_probe(what)
                self.check_agreement(what)
            elif kind == "unsub_all":
                self.t("unsubscribe_from_all()")
                c.unsubscribe_from_all()
                self.check_agreement("unsubscribe_from_all()")
            elif kind == "pause_all":
                self.t("pause_all_subscriptions()")
                c.pause_all_subscriptions()
                self.check_agreement("pause_all_subscriptions()")
            elif kind == "resume_all":
                self.t("resume_all_subscriptions()")
                c.resume_all_subscriptions()
                self.check_agreement("resume_all_subscriptions()")
            elif kind in ("sub_ctx", "pause_ctx"):
                lst = self.ctx_list("ctx")
                name = "subscription_context" if kind == "sub_ctx" else "paused_subscription_context"
                what = f"{name}({lst})"
                self.t(what + f"  [entry: sub={self.fmt(s0)} paused={self.fmt(p0)}]")
                cm = (c.subscription_context if kind == "sub_ctx" else c.paused_subscription_context)(lst)
                with warnings.catch_warnings():
                    warnings.simplefilter("ignore")
                    with cm:
                        self.check_agreement("entering " + what)
                        inside = (c.subscribed_types, c.paused_subscribed_types)
                self.check_agreement("leaving " + what)
                self.res.probes["ctx_checked"] += 1
                if set(lst) & s0:
                    self.res.probes["ctx_overlaps_subscribed"] += 1
                if set(lst) & p0:
                    self.res.probes["ctx_overlaps_paused"] += 1
                s1, p1 = c.subscribed_types, c.paused_subscribed_types
                if (s1, p1) != (s0, p0):
                    res.add("C02", "context_not_restored",
                            f"{what} entered with subscribed={self.fmt(s0)} paused={self.fmt(p0)} left "
                            f"subscribed={self.fmt(s1)} paused={self.fmt(p1)}",
                            sig="context_not_restored:" + ("paused" if s1 == s0 else "subscribed"))
            elif kind == "concurrent":
                self.concurrent_ops()
            elif kind == "read_ack":
                # the application reads with ack=True (it wants to see acknowledgements this once): that is a matter
                # of this one call and changes nothing about what the client is subscribed to
                from pyrtma.exceptions import ClientError
                self.t("read_message(timeout=0, ack=True)")
                try:
                    c.read_message(timeout=0, ack=True)
                except ClientError:
                    pass
                self.res.probes["read_with_ack"] += 1
                self.check_agreement("read_message(ack=True)")
            elif kind == "short_read":
                # the manager's next blocking read from this client comes back short (part of the request has
                # arrived, a signal interrupts the wait): whatever the manager makes of it -- it may give the
                # connection up -- client and manager must agree afterwards
                from pyrtma.exceptions import ClientError
                t1 = ch.choose("sr.t", self.uni)
                c._sock.peer.short_once = True
                self.t(f"the manager's next read from the client returns short; subscribe([{t1}])")
                ms = c._sock.peer
                try:
                    c.subscribe([t1])
                except (ClientError, InvalidSubscription) as e:
                    self.t(f"  -> {type(e).__name__}")
                finally:
                    self.w.quiesce()
                    ms.short_once = False
                self.res.probes["manager_short_read"] += 1
                if not c.connected or ms.closed:
                    for _ in range(3):
                        if not c.connected:
                            break
                        try:
                            c.send_module_ready()
                            c.read_message(timeout=0)
                        except ClientError:
                            pass
                    self.w.quiesce()
                    if not c.connected:
                        c.connect(f"127.0.0.1:{self.w.PORT}", allow_multiple=self.twin is not None)
                        self.w.quiesce()
                        self.check_agreement("reconnect after the manager gave the connection up")
                else:
                    self.check_agreement("a short read at the manager")
            elif kind == "drop_reconnect":
                # the network resets the connection; the same Client object connects again
                from pyrtma.exceptions import ClientError
                self.t("connection reset by the network; connect() again")
                c._sock.rx_rst = 2
                c._sock.peer.rx_rst = 2
                for _ in range(3):
                    if not c.connected:
                        break
                    try:
                        c.send_module_ready()
                        c.read_message(timeout=0)
                    except ClientError:
                        pass
                self.w.quiesce()
                if not c.connected:
                    c.connect(f"127.0.0.1:{self.w.PORT}", allow_multiple=self.twin is not None)
                    self.w.quiesce()
                    self.res.probes["reconnect_after_loss"] += 1
                    self.check_agreement("reconnect after connection loss")
            else:
                self.t("disconnect(); connect()")
                c.disconnect()
                self.w.quiesce()
                c.connect(f"127.0.0.1:{self.w.PORT}", allow_multiple=self.twin is not None)
                self.w.quiesce()
                self.check_agreement("reconnect")
        except InvalidSubscription:
            self.t("  -> InvalidSubscription")
            self.res.probes["refused_ops"] += 1
            if s0 != {ALL}:
                res.add("C02", "spurious_refusal",
                        f"{kind} was refused with InvalidSubscription although the client reports "
                        f"subscribed={self.fmt(s0)} (not subscribed to all types)", sig="spurious_refusal")
            self.check_agreement(f"refused {kind}", expect_unchanged=(s0, p0, d0))

    # ------------------------------------------------------------------
    def run(self) -> RunResult:
        res = self.res
        try:
            self.setup()
            n = 1 + self.ch.pick("cfg.nops", 12)
            for _ in range(n):
                self.one_op()
                if res.violations:
                    break
        except ManagerCrashed as e:
            res.crash = e.signature()
            res.crash_detail = str(e)
            self.t(f"MANAGER CRASHED: {e}")
        finally:
            if self.client is not None:
                self.client._connected = False
            if getattr(self, "twin", None) is not None:
                self.twin._connected = False
            w = self.w
            res.stats.update({k: v for k, v in w.net.stats.items() if v})
            res.digest = w.digest()
            res.sim_seconds = w.clock.advanced
            res.round_sigs = set(w.net.round_sigs)
            res.model_states = set(self.states)
            res.n_choices = len(self.ch.trace)
            res.nontrivial = len(self.states) > 1
            w.teardown()
        return res


def run(choices, forced=None) -> RunResult:
    return ClientSubRun(choices, forced).run()
