"""Property -> harness specification."""
from __future__ import annotations

REAL_MANAGER = ["pyrtma.manager (MessageManager.run loop, read/process/forward/ack/notice/timers, Module)",
                "pyrtma.header", "pyrtma.message", "pyrtma.message_base", "pyrtma.validators",
                "pyrtma.core_defs", "pyrtma.context", "pyrtma.client_logging (RTMA log handler)"]
STUB_NET = ["socket -> SimNet fake (per-direction FIFO byte pipes, FIN/RST, write faults)",
            "select -> simulator readiness oracle", "time -> virtual clock",
            "random.shuffle -> recorded choice", "os.getpid -> constant",
            "raw protocol actors with an independent struct codec (not pyrtma.header)",
            "rich console log handler switched off"]


class Spec:
    prop = ""
    harness = ""
    level = "exploration"
    rule = ""
    batch = 50
    expected_probes = ()
    crash_is_own_oracle = False
    assumptions = ()
    components = {"real": REAL_MANAGER, "stub": STUB_NET}

    def prepare(self):
        from sim.world import import_pyrtma
        import_pyrtma()

    def run(self, choices):
        raise NotImplementedError

    def deterministic_cases(self, tier):
        return []

    def run_det_batch(self, cases):
        return []


class PubSubSpec(Spec):
    harness = "pubsub"
    rule = ("one run = one seeded history of connect/subscribe/publish/leave operations by 2-9 raw "
            "actors against the real manager, with seeded arrival batching/cuts, service order, "
            "writable subsets, departures and write faults; non-trivial = at least one round with >=2 "
            "ready sockets, a not-writable connection, a mid-frame block, a departure or a write "
            "failure; distinct = distinct SHA-256 of the full event log")
    assumptions = ["the TCP model of sim/net.py (FIFO byte pipes, kernel close/RST behaviour as in DESIGN appendix A)",
                   "a connection reported writable accepts a whole frame (the opposite is the documented stall)",
                   "sampling: a clean batch is evidence, not proof"]

    def __init__(self, prop, probes):
        self.prop = prop
        self.expected_probes = probes

    def run(self, choices):
        from harness import pubsub
        return pubsub.run(choices, self.prop)


_SPECS = {}


def _register():
    _SPECS["C01"] = PubSubSpec("C01", ("multi_ready_round", "midframe_block", "not_writable", "drop_branch",
                                       "logger_waited", "self_delivery", "invalid_dest", "fanout>1",
                                       "write_fail"))
    _SPECS["C05"] = PubSubSpec("C05", ("multi_ready_round", "acks_mixed_with_data", "periodic_on_stream",
                                       "notice_on_stream", "common_pairs_checked", "truncated_final_frame"))
    _SPECS["C19"] = PubSubSpec("C19", ("handshake_checked", "acked_control_checked", "unacked_frame_checked",
                                       "logger_copy_checked", "refused_or_ignored_connect_checked"))
    s = PubSubSpec("C14", ("notices_expected", "logger_waited", "drop_branch", "write_fail"))
    s.level = "fault_enumeration"
    _SPECS["C14"] = s


def get_spec(prop: str) -> Spec:
    if not _SPECS:
        _register()
    return _SPECS[prop]


def all_props():
    if not _SPECS:
        _register()
    return sorted(_SPECS)
