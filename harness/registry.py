"""Property -> harness specification."""
from __future__ import annotations

REAL_MANAGER = ["pyrtma.manager (MessageManager.run loop, read/process/forward/ack/notice/timers, Module)",
                "pyrtma.header", "pyrtma.message", "pyrtma.message_base", "pyrtma.validators",
                "pyrtma.core_defs", "pyrtma.context", "pyrtma.client_logging (RTMA log handler)"]
STUB_NET = ["socket -> SimNet fake (per-direction FIFO byte pipes, FIN/RST, write faults)",
            "select -> simulator readiness oracle", "time -> virtual clock",
            "random.shuffle -> recorded choice", "os.getpid -> constant",
            "raw protocol actors with an independent struct codec (not pyrtma.header)",
            "rich console log handler switched off"]


class Spec:
    prop = ""
    harness = ""
    level = "exploration"
    rule = ""
    batch = 50
    expected_probes = ()
    crash_is_own_oracle = False
    quick_budget = None
    assumptions = ()
    components = {"real": REAL_MANAGER, "stub": STUB_NET}

    def prepare(self):
        from sim.world import import_pyrtma
        import_pyrtma()

    def run(self, choices, forced=None):
        raise NotImplementedError

    def deterministic_cases(self, tier):
        """finite fault table: list of case dicts, each run once with a seeded completion"""
        return []


class PubSubSpec(Spec):
    harness = "pubsub"
    rule = ("one run = one seeded history of connect/subscribe/publish/leave operations by 2-9 raw "
            "actors against the real manager, with seeded arrival batching/cuts, service order, "
            "writable subsets, departures and write faults; non-trivial = at least one round with >=2 "
            "ready sockets, a not-writable connection, a mid-frame block, a departure or a write "
            "failure; distinct = distinct SHA-256 of the full event log")
    assumptions = ["the TCP model of sim/net.py (FIFO byte pipes, kernel close/RST behaviour as in DESIGN appendix A)",
                   "a connection reported writable accepts a whole frame (the opposite is the documented stall)",
                   "sampling: a clean batch is evidence, not proof"]

    def __init__(self, prop, probes):
        self.prop = prop
        self.expected_probes = probes

    def run(self, choices, forced=None):
        from harness import pubsub
        if self.prop == "C01" and forced is None and choices.flag("cfg.clientpub", 1, 10):
            # one run in ten: the publisher is a real pyrtma.Client using the public sending API
            from harness import clientpub
            return clientpub.run(choices, self.prop)
        return pubsub.run(choices, self.prop, None, forced)

    def deterministic_cases(self, tier):
        if self.prop == "C14":
            from harness import pubsub
            return pubsub.c14_det_cases(tier)
        if self.prop == "C05":
            from harness import pubsub
            return pubsub.c05_det_cases(tier)
        return []


class HostileSpec(Spec):
    prop = "C03"
    harness = "hostile"
    level = "fault_enumeration"
    crash_is_own_oracle = True
    batch = 20
    rule = ("one run = well-behaved bystanders (logger monitor, subscriber, publisher) plus offenders doing "
            "seeded hostile operations (header field at a C-type boundary in every frame kind, arbitrary "
            "control payloads and name bytes, declared length != bytes that follow, FIN/RST after any byte, "
            "pairs of simultaneous failures, bursts of up to 300 connections, random bytes); thorough "
            "additionally runs the finite tables (frame kind x header field x boundary value x stage; "
            "frame kind x byte offset x FIN/RST; ordered pairs of failure kinds) once each with a seeded "
            "schedule; every run counts as non-trivial (each contains faults); distinct = distinct event-log digest")
    expected_probes = ("liveness_ok", "bystander_msgs_checked", "burst_300", "burst_101", "console_handler_on", "bystander_streams_checked")
    assumptions = ["the two stalls the manager documents as by-design (a peer that stops reading, or withholds the "
                   "rest of a frame for ever) are never generated",
                   "the TCP model of sim/net.py"]

    def run(self, choices, forced=None):
        from harness import hostile
        return hostile.run(choices, forced)

    def deterministic_cases(self, tier):
        from harness import hostile
        return hostile.det_cases(tier)


class DepartureSpec(Spec):
    prop = "C07"
    harness = "departure"
    level = "fault_enumeration"
    batch = 30
    rule = ("one run = a victim brought to a protocol stage (accepted only / connected / subscribed to types / "
            "subscribed to ALL / paused / logger) leaves in one way (DISCONNECT, FIN, RST, death at a byte offset "
            "of an incoming frame, refusal at connect, write-side failure at a byte offset of an outgoing frame), "
            "alone or together with a second departure in the same instant, amid seeded traffic, service orders "
            "and further pubsub operations; then id and name are reused at once.  Thorough runs the finite table "
            "stage x way x byte offset x second-departure once each with a seeded schedule.  Every run contains a "
            "departure (non-trivial); distinct = distinct event-log digest")
    expected_probes = ("client_closed_checked", "reconnect_checked", "refusal_checked", "write_fail",
                       "victim_accepted", "victim_logger", "victim_paused", "victim_sub_all", "multi_ready_round",
                       "pool_full_reuse")
    assumptions = ["the manager has had its first chance to notice (a failed write, or a select round after the "
                   "FIN/RST became visible) before reuse is attempted", "the TCP model of sim/net.py"]

    def run(self, choices, forced=None):
        from harness import departure
        return departure.run(choices, forced)

    def deterministic_cases(self, tier):
        from harness import departure
        return departure.det_cases(tier)


REAL_CLIENT = ["pyrtma.client (real Client / client_context objects driven through their public API)"]


class ClientSubSpec(Spec):
    prop = "C02"
    harness = "clientsub"
    level = "exploration"
    batch = 40
    rule = ("one run = a real pyrtma.Client connected through the fake socket to the real manager executes a seeded "
            "history (<=12) of subscribe / unsubscribe / pause / resume with every argument shape, the bulk "
            "variants, both scoped contexts (enter - probe - exit, lists overlapping the current state) and "
            "reconnects; after every operation a raw prober publishes one message of each universe type and the set "
            "that arrives on the client's socket is compared with what the client reports.  non-trivial = the run "
            "visited more than one client subscription state; distinct = distinct event-log digest; model_states = "
            "distinct (subscribed, paused) client states visited")
    expected_probes = ("op_subscribe", "op_pause", "op_resume", "op_sub_ctx", "op_pause_ctx", "refused_ops",
                       "ctx_overlaps_subscribed", "ctx_overlaps_paused", "op_while_sub_all", "op_reconnect",
                       "reconnect_after_loss", "twin_instance", "racing_probes_checked", "racing_probe_overtook_request",
                       "concurrent_client_ops", "manager_short_read")
    components = {"real": REAL_MANAGER + REAL_CLIENT, "stub": STUB_NET}
    assumptions = ["model-free: client and manager are compared with each other, the statement's own criterion",
                   "all connections writable during probes (a drop would be a legitimate non-delivery)"]

    def run(self, choices, forced=None):
        from harness import clientsub
        return clientsub.run(choices, forced)


class IdentitySpec(Spec):
    prop = "C06"
    harness = "identity"
    level = "exploration"
    batch = 10
    quick_budget = 34.0
    rule = ("one run = a seeded history (2-13 steps) of connects and disconnects by several participants mixing entry "
            "points (real Client.connect, real client_context, raw CONNECT, raw CONNECT_V2, raw CONNECT_V2+CONNECT), "
            "requested ids (0, in range, 1, 99, 100, 101, 200, -1, 32767), allow_multiple / logger / daemon flags and "
            "names (empty, shared, distinct, message_manager), plus bursts of 30-130 sequential dynamic connects that "
            "wrap the dynamic-id cursor with some ids held live; after every step a directed probe is published to "
            "every live id.  non-trivial = more than one connect attempt; distinct = distinct event-log digest")
    expected_probes = ("must_accept_checked", "must_refuse_checked", "dynamic_id_checked", "wire_options_checked",
                       "client_info_checked", "dyn_burst_110", "dyn_burst_130", "dyn_burst_230", "dynamic_id_high",
                       "client_ctor_refused", "fanout>1", "reconnect_same_client", "connect_again_while_connected", "connect_with_a_racing_request", "v2_header_source_differs", "closes_judged")
    components = {"real": REAL_MANAGER + REAL_CLIENT, "stub": STUB_NET}
    assumptions = ["explicit id exactly 100 and a unique newcomer reusing the name of a multi-instance incumbent are "
                   "don't-care (statement silent, client and manager disagree today)",
                   "all connections writable (drops are C14's subject)"]

    def run(self, choices, forced=None):
        from harness import identity
        return identity.run(choices, forced)

    def deterministic_cases(self, tier):
        from harness import identity
        return identity.det_cases(tier)


class ReadPathSpec(Spec):
    prop = "C08"
    harness = "readpath"
    level = "fault_enumeration"
    batch = 60
    rule = ("one run = a real pyrtma.Client, connected through the fake socket to a scripted server, executes a seeded "
            "sequence of: server feeds frames (good & subscribed, good & unsubscribed, ACK, unknown type, wrong size, "
            "wrong non-zero version, version 0, zero-length) in any order, bytes arrive cut at arbitrary boundaries, "
            "subscription changes, read_message with timeout in {0, short, blocking, None} and ack / sync_check flags, "
            "server close by FIN or RST at an arbitrary byte; thorough runs the table frame kind x byte offset 0..149 x "
            "FIN/RST x position once each.  The fake socket counts the bytes each call consumed, which fixes which "
            "frames the call decided on.  non-trivial = more than one frame kind or a close; distinct = distinct "
            "operation/outcome trace")
    expected_probes = ("read_msg", "read_none", "read_unknown", "read_invalid", "read_lost", "skipped_frames",
                       "lost_checked_fin", "lost_checked_rst", "decode_error_checked", "returned_checked",
                       "blocking_read_fed", "decode_error_on_cut_frame", "second_session", "scratch_redefined", "scratch_old_style_definition", "drain_by_polling", "discard_messages_ok")
    components = {"real": REAL_CLIENT + ["pyrtma.message / header / validators / core_defs"],
                  "stub": ["socket/select/time fakes", "scripted server actor with the independent struct codec",
                           "no manager in this harness"]}
    assumptions = ["frames come from a manager-like peer: declared lengths are non-negative and at most 64 KiB",
                   "the server never withholds the rest of a frame for ever (it completes it or closes)"]

    def run(self, choices, forced=None):
        from harness import readpath
        return readpath.run(choices, forced)

    def deterministic_cases(self, tier):
        from harness import readpath
        return readpath.det_cases(tier)


class StatsSpec(Spec):
    prop = "C18"
    harness = "stats"
    level = "exploration"
    batch = 4
    quick_budget = 24.0
    rule = ("one run = 1-4 publishers (distinct ids and pids, static / dynamic / shared ids) emit, per reporting interval, "
            "a chosen multiset of message types (0, 1, 2, 63, 64, 65, 128, 129 or 300 distinct types, 1-300 each, "
            "occasionally one type 40000-65535 times; types at 0, 9999, 10000 and -1) while the virtual clock is "
            "stepped across TIMING (0.9 s) and TRAFFIC (1 s) periods, including boundaries inside a burst and jumps "
            "over several periods; a logger monitor subscribed to ALL sees every report and every forwarded message. "
            "In some runs ordinary subscribers are at times not writable, so FAILED_MESSAGE notices join the traffic.  Every run is "
            "non-trivial; distinct = distinct event-log digest")
    expected_probes = ("timing_reports_checked", "traffic_reports_checked", "traffic_submsgs_2", "traffic_submsgs_3",
                       "traffic_submsgs_5", "timing_empty_interval", "timing_out_of_range_types", "huge_count",
                       "notices_counted", "timing_switched_off", "watcher_mode", "traffic_reports_after_gap_checked", "first_timing_report_checked", "real_client_pid")
    assumptions = ["'handled for forwarding' = client data frames read + manager-originated messages sent through "
                   "forwarding; ACKNOWLEDGE copies to loggers are not asserted either way",
                   "out-of-range destinations, pre-handshake frames and connection failures are not generated here"]

    def run(self, choices, forced=None):
        from harness import stats
        return stats.run(choices, forced)

    def deterministic_cases(self, tier):
        from harness import stats
        return stats.det_cases(tier)


class DataLoggerSpec(Spec):
    prop = "C17"
    harness = "datalogger"
    level = "exploration"
    batch = 40
    rule = ("one run = the real DataCollection with 1-3 data sets (raw / json / quicklogger formatters, type selections, "
            "subdivision off / 30 s / 600 s, WRITE_PERIOD 0.5-15 s) records a seeded sequence (0..200) of update(msg) / "
            "update(None) / pause / resume / clock moves and then stop (sometimes start-stop again); the recording side "
            "and the real background writer are baton-scheduled threads, and every Event.wait/set/clear/is_set and "
            "Thread.start/join/is_alive is a scheduling point where the seeded scheduler picks who runs and may move the "
            "virtual clock by 0 / a little / just under or over a flush or subdivision period.  After stop every file is "
            "read back (raw split by the independent codec, json via Message.from_json, quicklogger via QLReader) and "
            "compared with the accepted sequence.  non-trivial = more than two task switches and at least one message; "
            "distinct = distinct scheduler log + operation trace")
    expected_probes = ("checked_raw", "checked_json", "checked_quicklogger", "checked_msg_header", "subdivided_files", "empty_sequence",
                       "single_message", "lock_contended", "runs_with_flush", "runs_with_3+_flushes", "writer_busy_seen",
                       "ql_files_read", "second_recording", "further_recording_same_folder", "dataset_replaced", "dataset_removed", "high_type_ids",
                       "timecode_headers", "user_type_in_quicklogger", "redundant_selection", "timecode_client_in_process")
    components = {"real": ["pyrtma.data_logger.data_collection (DataCollection incl. the writer loop)",
                           "pyrtma.data_logger.data_set", "data_formatter and the raw/json/quicklogger formatters",
                           "pyrtma.data_logger.metadata", "pyrtma.utils.quicklogger_reader (QLReader)",
                           "pyrtma.message / core_defs", "real files in a scratch directory"],
                  "stub": ["threading.Event / Thread / Lock -> baton-scheduled simulator versions",
                           "time.time -> virtual clock", "print -> discarded"]}
    assumptions = ["pre-emption only at synchronisation operations (the granularity the property names)",
                   "no disk faults and no process crashes (the statement does not claim them)"]

    def prepare(self):
        super().prepare()
        import logging
        lg = logging.getLogger("data_logger")
        if not lg.handlers:
            lg.addHandler(logging.NullHandler())
        lg.propagate = False

    def run(self, choices, forced=None):
        from harness import datalogger
        return datalogger.run(choices, forced)

    def deterministic_cases(self, tier):
        from harness import datalogger
        return datalogger.det_cases(tier)


class ValidationSpec(Spec):
    prop = "C09"
    harness = "validation"
    level = "exploration"
    batch = 100
    rule = ("one run = 1-3 baton-scheduled tasks (real threads, switching at every operation boundary by seeded choice) "
            "each execute a generated program of nested `with disable_message_validation(ignore=...)` blocks (depth <= 3) "
            "left normally, by an exception raised in the body, or by an exception the library itself raises inside the "
            "block, interleaved with probes (is validation in force?) and assignments drawn from a boundary table of "
            "about 1300 cases over every validator kind (8 integer widths, float, double, char, string, byte, byte "
            "array, int / float arrays, struct, struct array): min-1, min, max, max+1, +-inf, NaN, huge ints, bools, "
            "wrong python types, wrong lengths, a single bad element at every position (also next to NaN), every slice "
            "shape, array-from-array.  The deterministic part runs table cases once each (all in thorough, every third "
            "in quick).  non-trivial = the run contained a refusal or an in-force probe; distinct = distinct trace")
    expected_probes = ("probe_in_force", "probe_inside_block", "validation_off_inside_block", "block_exception",
                       "block_lib_exception", "block_interrupt", "nested_block", "tasks_3", "assign_set", "assign_item", "assign_slice",
                       "assign_from", "assign_nested", "refused", "accepted", "stale_accessor_used_in_force", "line_level_mode", "api_context_runs", "twin_message_touched", "same_object_reassigned")
    components = {"real": ["pyrtma.validators (all descriptors, disable_message_validation)", "pyrtma.message_base",
                           "pyrtma.message_data"],
                  "stub": ["baton-scheduled tasks instead of OS-scheduled threads"]}
    assumptions = ["bool offered to an integer field, NaN offered to a float field and bytes offered to a numeric array "
                   "are don't-care (statement silent)",
                   "the value-domain half is input enumeration riding on the harness; simulation decides the "
                   "disable-block / per-task half (DESIGN 5.9)"]

    def run(self, choices, forced=None):
        from harness import validation
        if forced is None and choices.flag("cfg.valctx", 1, 12):
            # validation stays in force around the package's own API (a real Client against the real manager)
            from harness import valctx
            return valctx.run(choices)
        return validation.run(choices, forced)

    def deterministic_cases(self, tier):
        from harness import validation
        self.prepare()
        return validation.det_cases(tier)


_SPECS = {}


def _register():
    _SPECS["C01"] = PubSubSpec("C01", ("multi_ready_round", "midframe_block", "not_writable", "drop_branch",
                                       "logger_waited", "self_delivery", "invalid_dest", "fanout>1",
                                       "write_fail", "client_api_publishes", "odd_header_fields", "closes_judged"))
    _SPECS["C05"] = PubSubSpec("C05", ("multi_ready_round", "acks_mixed_with_data", "periodic_on_stream",
                                       "notice_on_stream", "common_pairs_checked", "truncated_final_frame",
                                       "long_stream_33000", "long_stream_66000", "pre_handshake_frames"))
    _SPECS["C19"] = PubSubSpec("C19", ("handshake_checked", "acked_control_checked", "unacked_frame_checked",
                                       "logger_copy_checked", "refused_or_ignored_connect_checked", "short_control_frame", "control_header_cut", "control_frame_with_destination"))
    s = PubSubSpec("C14", ("notices_expected", "logger_waited", "drop_branch", "write_fail", "no_logger_observer",
                           "mgr_originated_notices_expected"))
    s.level = "fault_enumeration"
    s.rule = PubSubSpec.rule + ("; additionally the finite table k=1..4 subscribers x {writable, not writable, write fails}^k x "
                               "{no logger, logger at position i} (546 cells) is run once per cell in thorough, every fourth "
                               "cell in quick")
    _SPECS["C14"] = s
    _SPECS["C03"] = HostileSpec()
    _SPECS["C07"] = DepartureSpec()
    _SPECS["C02"] = ClientSubSpec()
    _SPECS["C06"] = IdentitySpec()
    _SPECS["C08"] = ReadPathSpec()
    _SPECS["C18"] = StatsSpec()
    _SPECS["C17"] = DataLoggerSpec()
    _SPECS["C09"] = ValidationSpec()


def get_spec(prop: str) -> Spec:
    if not _SPECS:
        _register()
    return _SPECS[prop]


def all_props():
    if not _SPECS:
        _register()
    return sorted(_SPECS)
