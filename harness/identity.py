"""Harness `identity` (C06): unique ids, sound dynamic ids, connect options honoured through every
public way of connecting (Client.connect, client_context, raw CONNECT, raw CONNECT_V2[+CONNECT])."""
from __future__ import annotations

import logging
import struct

from sim import codec as C
from sim.actors import Actor, TAG_BASE
from sim.model import PubSubModel, MUST_ACCEPT, MUST_REFUSE, DONT_CARE, IGNORED, ALL
from sim.world import World, ManagerCrashed
from .base import RunResult
from .pubsub import PubSubRun, PROFILES, payload_for

PROFILES["C06"] = dict(notw=[(0, 1)], ops=1, edge_types=False, leave_w=0, ctl_w=0, pub_w=1, noise_w=0,
                       clock_w=0)
T = 1500
IDS = [0, 0, 0, 10, 11, 12, 1, 99, 100, 101, 200, -1, 32767, 4, 5, 4]
LONG_NAMES = [b"n" * 31 + b"x", b"n" * 31 + b"y"]
NAMES = [b"", b"", b"shared", b"shared", b"alpha", b"beta", b"message_manager", b" shared", b"alpha ", b" ", b"a b"]


class ClientActor:
    """A real pyrtma.Client seen through the same interface as a raw Actor."""

    def __init__(self, run, name, client, opts, via):
        self.run = run
        self.name = name
        self.client = client
        self.opts = opts
        self.via = via
        self.cm = None
        self.connected_ok = False
        self.socks = []
        self.left = None
        self.tail = b""
        self.handshake_sent = True
        self.protected = True

    @property
    def sock(self):
        return self.client._sock if self.client is not None else None

    @property
    def conn(self):
        return self.sock.peer.idx

    @property
    def alive(self):
        s = self.sock
        return s is not None and s.kind == "conn" and not s.closed

    def received(self):
        return C.split_frames(self.run.w.timecode, self.sock.rx_log)

    def flush_tail(self):
        pass


class IdentityRun(PubSubRun):
    def __init__(self, choices, forced=None):
        super().__init__(choices, "C06")
        self.forced = forced
        if forced and forced.get("table") in ("uid_wrap", "many_alive"):
            self.force_loglevel = logging.ERROR      # (tens of thousands of connections: no log record per accept)
        self.parts = []          # all participants (Actor | ClientActor)
        self.attempts = []       # dict per connect attempt

    def setup(self):
        super().setup()
        if self.monitor is None:
            mon = self.new_actor("mon")
            mon.open()
            mon.handshake("v2v1", req_id=90, logger=True, name=b"monitor")
            mon.subscribe(ALL)
            self.monitor = mon
            self.t("monitor connects id=90 logger sub ALL")
        self.prober = self.new_actor("prober")
        self.prober.open()
        self.prober.handshake("v2v1", req_id=91, name=b"prober")
        self.prober.protected = True
        self.w.quiesce()
        self.universe = [T]
        if self.ch.flag("cfg.client_stall", 1, 4):
            # a client's own socket is occasionally unable to take data for a while
            self.w.p_peer_stall = (1, 8)

    # ------------------------------------------------------------------ steps
    def draw_opts(self):
        ch = self.ch
        return dict(
            rid=ch.choose("id.rid", IDS),
            multi=ch.flag("id.multi", 1, 3),
            logger=ch.flag("id.logger", 1, 5),
            daemon=ch.flag("id.daemon", 1, 5),
            name=ch.choose("id.name", NAMES),
        )

    def step_connect(self):
        ch = self.ch
        via = ch.weighted("id.via", [(4, "client"), (3, "context"), (2, "raw_v2v1"), (2, "raw_v1"), (1, "raw_v2")])
        o = self.draw_opts()
        if via in ("raw_v2v1", "raw_v2") and ch.flag("id.longname", 1, 5):
            # names that fill the whole 32-byte field (no terminator on the wire) and differ in the last byte only;
            # a validated Client cannot send these, a raw CONNECT_V2 can
            o["name"] = ch.choose("id.ln", LONG_NAMES)
            self.res.probes["full_length_name"] += 1
        idx = len(self.parts)
        att = dict(via=via, opts=o, idx=idx, outcome=None)
        if via in ("client", "context"):
            import pyrtma
            from pyrtma.exceptions import ClientError
            rid = o["rid"]
            if rid < 0 or rid >= 100:
                # the constructor itself refuses these ids: never reaches the manager
                import sys
                hook = sys.unraisablehook
                sys.unraisablehook = lambda *a: None     # Client.__del__ of the half-built object is noisy
                try:
                    try:
                        pyrtma.Client(module_id=rid, timecode=self.w.timecode)
                        self.res.add("C06", "client_accepts_bad_id", f"Client(module_id={rid}) was constructed")
                    except ValueError:
                        self.res.probes["client_ctor_refused"] += 1
                    import gc
                    gc.collect()
                finally:
                    sys.unraisablehook = hook
                return
            name = o["name"].decode()
            self.t(f"p{idx} {via} id={rid} multi={o['multi']} logger={o['logger']} daemon={o['daemon']} name={name!r}")
            if ch.flag("id.racer", 1, 4):
                # somebody else's connection request is already in flight: the manager serves it before, after or
                # in the same round as the client's own
                r = self.new_actor(f"r{len(self.actors)}")
                r.protected = True
                r.open()
                r.handshake("v2v1", req_id=ch.choose("id.racer.id", [0, 0, 55]), allow_multiple=True, name=b"", pid=77)
                r.subscribe(T)
                self.res.probes["connect_with_a_racing_request"] += 1
                self.t(f"  ({r.name}'s own connection request is in flight)")
            if via == "client":
                c = pyrtma.Client(module_id=rid, timecode=self.w.timecode, name=name)
                self.w.register_client_logger(c)
                ca = ClientActor(self, f"p{idx}", c, o, via)
                try:
                    c.connect(f"127.0.0.1:{self.w.PORT}", logger_status=o["logger"], daemon_status=o["daemon"],
                              allow_multiple=o["multi"])
                    ca.connected_ok = True
                    c.subscribe([T])
                except ClientError as e:
                    att["error"] = type(e).__name__
                    c._connected = False
            else:
                o["daemon"] = False      # client_context has no daemon option
                cm = pyrtma.client_context(module_id=rid, server_name=f"127.0.0.1:{self.w.PORT}", msg_list=[T],
                                           timecode=self.w.timecode, logger_status=o["logger"],
                                           allow_multiple=o["multi"], name=name)
                ca = ClientActor(self, f"p{idx}", None, o, via)
                # find the Client object the context creates
                made = []
                orig = pyrtma.client.Client

                class Spy(orig):
                    def __init__(s, *a, **k):
                        super().__init__(*a, **k)
                        made.append(s)

                pyrtma.client.Client = Spy
                try:
                    try:
                        c = cm.__enter__()
                        ca.connected_ok = True
                        ca.cm = cm
                    except ClientError as e:
                        att["error"] = type(e).__name__
                        c = made[0] if made else None
                        if c is not None:
                            c._connected = False
                finally:
                    pyrtma.client.Client = orig
                if c is None:
                    return
                self.w.register_client_logger(c)
                ca.client = c
            self.actors.append(ca)
            self.parts.append(ca)
            att["part"] = ca
            if ca.sock is not None and ca.sock.kind == "conn":
                att["conn"] = ca.conn
        else:
            a = self.new_actor(f"p{idx}")
            a.protected = True
            a.open()
            proto = via[4:]
            hs = ch.weighted("id.hdr_src", [(5, None), (1, 0), (1, 9), (1, 90)]) if proto != "v1" else None
            if hs is not None:
                self.res.probes["v2_header_source_differs"] += 1
            a.handshake(proto, req_id=o["rid"], logger=o["logger"], allow_multiple=o["multi"], name=o["name"],
                        pid=6000 + idx, daemon=o["daemon"], hdr_src=hs)
            a.subscribe(T)
            a.opts = o
            a.via = via
            self.parts.append(a)
            att["part"] = a
            att["conn"] = a.conn
            self.t(f"p{idx} {via} id={o['rid']} multi={o['multi']} logger={o['logger']} name={o['name']!r}")
        self.attempts.append(att)
        self.w.quiesce()
        self.after_step(att)

    def step_lazy(self):
        """a raw participant connects its socket now and sends its handshake only later (after others)"""
        ch = self.ch
        pending = getattr(self, "lazy", [])
        if pending and ch.flag("id.lazy_fire", 2, 3):
            a, o, proto = pending.pop(0)
            if not a.alive:
                return
            a.handshake(proto, req_id=o["rid"], logger=o["logger"], allow_multiple=o["multi"], name=o["name"],
                        pid=6000 + len(self.parts), daemon=o["daemon"])
            a.subscribe(T)
            att = dict(via="raw_" + proto, opts=o, idx=self.parts.index(a), part=a, conn=a.conn, outcome=None)
            self.attempts.append(att)
            self.t(f"{a.name} (accepted earlier) now sends its handshake id={o['rid']} multi={o['multi']} name={o['name']!r}")
            self.res.probes["late_handshake"] += 1
            self.w.quiesce()
            self.after_step(att)
            return
        o = self.draw_opts()
        a = self.new_actor(f"p{len(self.parts)}")
        a.protected = True
        a.open()
        a.opts = o
        a.via = "raw_v2v1"
        self.parts.append(a)
        self.lazy = pending + [(a, o, ch.choose("id.lazy_proto", ["v2v1", "v1", "v2"]))]
        self.t(f"{a.name} opens a connection and stays silent for now")
        self.w.quiesce()

    def step_vanish(self):
        """a requester is gone before the manager can acknowledge it"""
        ch = self.ch
        o = self.draw_opts()
        a = self.new_actor(f"p{len(self.parts)}")
        a.protected = True
        a.open()
        a.opts = o
        a.via = "raw_v2v1"
        a.handshake("v2v1", req_id=o["rid"], logger=o["logger"], allow_multiple=o["multi"], name=o["name"], pid=1)
        a.leave(ch.choose("id.vanish_way", ["rst", "fin"]))
        self.parts.append(a)
        self.t(f"{a.name} asks for id={o['rid']} and is gone before the acknowledgement")
        self.res.probes["vanished_requester"] += 1
        self.w.quiesce()

    def step_disconnect(self):
        ch = self.ch
        live = [p for p in self.parts if p.alive]
        if not live:
            return
        p = ch.choose("id.who", live)
        if isinstance(p, ClientActor):
            if p.cm is not None:
                try:
                    p.cm.__exit__(None, None, None)
                except Exception:
                    pass
                p.cm = None
            else:
                p.client.disconnect()
            p.left = "disconnect"
            self.t(f"{p.name} disconnects (client API)")
        else:
            way = ch.choose("id.leave", ["disconnect", "fin", "rst"])
            if way == "disconnect":
                p.disconnect()
                p.leave("fin")
            else:
                p.leave(way)
            self.t(f"{p.name} leaves ({way})")
        self.w.quiesce()

    def step_drop_reconnect(self):
        """the network drops a real client's connection (both ends see a reset); the same Client
        object then connects again through the public API"""
        from pyrtma.exceptions import ClientError
        ch = self.ch
        live = [p for p in self.parts if isinstance(p, ClientActor) and p.alive and p.connected_ok and p.cm is None]
        if not live:
            return
        p = ch.choose("id.dropwho", live)
        cs = p.sock
        ms = cs.peer
        # both directions reset, as after a network failure
        cs.rx_rst = 2
        ms.rx_rst = 2
        self.t(f"{p.name}: the network resets its connection")
        try:
            p.client.send_module_ready()
            p.client.send_module_ready()
        except ClientError:
            pass
        if p.client.connected:
            # the client has not noticed yet (its writes went into the void): reading notices it
            try:
                p.client.read_message(timeout=0)
            except ClientError:
                pass
        self.w.quiesce()
        self.res.probes["connection_dropped"] += 1
        if p.client.connected:
            return
        o = p.opts
        idx = len(self.attempts)
        att = dict(via="client", opts=o, idx=idx, outcome=None, part=p, reconnect=True)
        self.t(f"{p.name} reconnects (same Client object) id={o['rid']} multi={o['multi']} logger={o['logger']}")
        try:
            p.client.connect(f"127.0.0.1:{self.w.PORT}", logger_status=o["logger"], daemon_status=o["daemon"],
                             allow_multiple=o["multi"])
            p.client.subscribe([T])
            p.connected_ok = True
        except ClientError as e:
            att["error"] = type(e).__name__
            p.client._connected = False
            p.connected_ok = False
        if p.sock is not None and p.sock.kind == "conn":
            att["conn"] = p.conn
        self.attempts.append(att)
        self.res.probes["reconnect_same_client"] += 1
        self.w.quiesce()
        self.after_step(att)

    def step_connect_again(self):
        """connect() is called again on a Client object that is still connected, with other options: the old
        connection is given up and the module registers anew as the new call says"""
        from pyrtma.exceptions import ClientError
        ch = self.ch
        live = [p for p in self.parts if isinstance(p, ClientActor) and p.alive and p.connected_ok and p.cm is None
                and p.client.connected]
        if not live:
            return
        p = ch.choose("id.againwho", live)
        o = dict(p.opts)
        o["logger"] = ch.flag("id.again.logger", 1, 2)
        o["daemon"] = ch.flag("id.again.daemon", 1, 2)
        o["multi"] = ch.flag("id.again.multi", 1, 2)
        idx = len(self.attempts)
        att = dict(via="client", opts=o, idx=idx, outcome=None, part=p, reconnect=True)
        self.t(f"{p.name} calls connect() again while connected: multi={o['multi']} logger={o['logger']} daemon={o['daemon']}")
        p.opts = o
        try:
            p.client.connect(f"127.0.0.1:{self.w.PORT}", logger_status=o["logger"], daemon_status=o["daemon"],
                             allow_multiple=o["multi"])
            p.client.subscribe([T])
            p.connected_ok = True
        except ClientError as e:
            att["error"] = type(e).__name__
            p.client._connected = False
            p.connected_ok = False
        if p.sock is not None and p.sock.kind == "conn":
            att["conn"] = p.conn
        self.attempts.append(att)
        self.res.probes["connect_again_while_connected"] += 1
        self.w.quiesce()
        self.after_step(att)

    def raw_attempt(self, name, rid, multi, mname, proto="v2v1"):
        a = self.new_actor(name)
        a.protected = True
        a.open()
        a.handshake(proto, req_id=rid, allow_multiple=multi, name=mname, pid=1)
        a.subscribe(T)
        a.opts = dict(rid=rid, multi=multi, logger=False, daemon=False, name=mname)
        a.via = "raw_" + proto
        self.parts.append(a)
        att = dict(via=a.via, opts=a.opts, idx=len(self.parts) - 1, part=a, conn=a.conn, outcome=None)
        self.attempts.append(att)
        self.w.quiesce()
        self.after_step(att, light=True)
        return a, att

    def case_uid_wrap(self, f):
        """a unique module stays connected while tens of thousands of other connections come and go (every internal
        per-connection counter of 16 bits has wrapped); its id and name are still its own"""
        w = self.w
        w.max_rounds = 10 ** 8
        w.quiesce_limit = 10 ** 6
        keeper, _ = self.raw_attempt("keeper", 7, False, b"keeper")
        n = f.get("n", 65600)
        self.t(f"{n} connections are opened and closed again, a few at a time")
        for i in range(n):
            x = Actor(w, "x")
            x.open()
            x.leave("fin" if i % 2 else "rst")
            if i % 32 == 31:
                w.quiesce()
        w.quiesce()
        self.res.probes["connections_churned_%d" % n] += 1
        # now the same id, and the same name under another id, are requested by unique newcomers, one connection
        # after the other (so that whatever per-connection counter has wrapped, one of them meets the keeper's value):
        # all refused
        for j in range(f.get("thieves", 6)):
            self.raw_attempt(f"thief{j}", 7, False, b"other")
            if j % 3 == 2:
                self.raw_attempt(f"namethief{j}", 8, False, b"keeper")
        self.raw_attempt("fine", 9, False, b"fine")

    def case_many_alive(self, f):
        """more than two hundred connections alive at once (many instances of one shared id, many dynamic ids);
        a request for a free id is still served"""
        w = self.w
        w.max_rounds = 10 ** 7
        w.quiesce_limit = 10 ** 5
        for i in range(f.get("shared", 150)):
            a = self.new_actor(f"m{i}")
            a.protected = True
            a.open()
            a.handshake("v2v1", req_id=9, allow_multiple=True, name=b"", pid=1)
            if i % 25 == 24:
                w.quiesce()
        for i in range(f.get("dynamic", 60)):
            a = self.new_actor(f"y{i}")
            a.protected = True
            a.open()
            a.handshake("v2v1", req_id=0, allow_multiple=False, name=b"", pid=1)
            if i % 25 == 24:
                w.quiesce()
        w.quiesce()
        self.res.probes["many_connections_alive"] += 1
        self.raw_attempt("late_dyn", 0, False, b"")
        self.raw_attempt("late_fixed", 33, False, b"late")
        self.raw_attempt("late_shared", 9, True, b"")

    def step_fill_pool(self):
        """every dynamic id is taken; then one holder leaves and a newcomer must get exactly that id"""
        ch = self.ch
        self.t("dynamic ids are requested until the pool is exhausted")
        self.res.probes["pool_filled"] += 1
        made = []
        for i in range(104):
            a = self.new_actor(f"d{len(self.actors)}")
            a.protected = True
            a.open()
            a.handshake("v2v1", req_id=0, allow_multiple=False, name=b"", pid=1)
            a.opts = dict(rid=0, multi=False, logger=False, daemon=False, name=b"")
            a.via = "raw_v2v1"
            self.parts.append(a)
            att = dict(via="raw_v2v1", opts=a.opts, idx=len(self.parts) - 1, part=a, conn=a.conn, outcome=None)
            self.attempts.append(att)
            self.w.quiesce()
            self.after_step(att, light=True)
            if att.get("acked_id") is not None:
                made.append(a)
        if not made:
            return
        which = ch.choose("id.poolrelease", ["last", "first", "middle"])
        gone = {"last": made[-1], "first": made[0], "middle": made[len(made) // 2]}[which]
        gone.leave(ch.choose("id.poolway", ["fin", "rst"]))
        self.w.quiesce()
        self.t(f"{gone.name} (the {which} dynamic holder) leaves; a newcomer asks for a dynamic id")
        a = self.new_actor(f"d{len(self.actors)}")
        a.protected = True
        a.open()
        a.handshake("v2v1", req_id=0, allow_multiple=False, name=b"", pid=1)
        a.opts = dict(rid=0, multi=False, logger=False, daemon=False, name=b"")
        a.via = "raw_v2v1"
        self.parts.append(a)
        att = dict(via="raw_v2v1", opts=a.opts, idx=len(self.parts) - 1, part=a, conn=a.conn, outcome=None)
        self.attempts.append(att)
        self.w.quiesce()
        self.after_step(att, light=True)

    def step_dyn_burst(self):
        """enough dynamic connects to wrap the dynamic-id cursor, some ids held live"""
        ch = self.ch
        if ch.flag("id.fillpool", 1, 6):
            return self.step_fill_pool()
        n = ch.choose("id.burst", [30, 95, 110, 130, 230])
        hold_every = ch.choose("id.hold", [3, 7, 13, 50])
        random_hold = ch.flag("id.randhold", 1, 2)
        self.t(f"{n} sequential dynamic connects, {'about ' if random_hold else ''}every {hold_every}th stays connected")
        self.res.probes[f"dyn_burst_{n}"] += 1
        for i in range(n):
            a = self.new_actor(f"d{len(self.actors)}")
            a.protected = True
            a.open()
            a.handshake("v2v1", req_id=0, allow_multiple=False, name=b"", pid=1)
            a.opts = dict(rid=0, multi=False, logger=False, daemon=False, name=b"")
            a.via = "raw_v2v1"
            self.parts.append(a)
            att = dict(via="raw_v2v1", opts=a.opts, idx=len(self.parts) - 1, part=a, conn=a.conn, outcome=None)
            self.attempts.append(att)
            self.w.quiesce()
            self.after_step(att, light=True)
            keep = (not ch.flag("id.release", hold_every - 1, hold_every)) if random_hold else (i % hold_every == 0)
            if not keep:
                a.leave("fin")
                self.w.quiesce()
            elif ch.flag("id.release_old", 1, 3):
                # an older holder leaves instead: the table order no longer follows the id order
                old = [q for q in self.parts if isinstance(q, Actor) and q.alive and q.name.startswith("d") and q is not a]
                if old:
                    ch.choose("id.oldwho", old).leave("fin")
                    self.w.quiesce()

    # ------------------------------------------------------------------ per-step observation
    def acked_id(self, p):
        """id in the first manager ACK this participant received, or None"""
        if p.sock is None or p.sock.kind != "conn":
            return None
        frames, _ = C.split_frames(self.w.timecode, p.sock.rx_log)
        for h, _p in frames:
            if h.msg_type == C.MT_ACKNOWLEDGE and h.src_mod_id == 0 and h.send_time < TAG_BASE:
                return h.dest_mod_id
        return None

    def after_step(self, att, light=False):
        res = self.res
        p = att.get("part")
        if p is None:
            return
        closed = {c for (_s, c) in self.w.net.closes}
        aid = self.acked_id(p)
        att["acked_id"] = aid
        att["closed"] = att.get("conn") in closed
        o = att["opts"]
        # dynamic id soundness, from observation only
        if aid is not None and o["rid"] == 0:
            res.probes["dynamic_id_checked"] += 1
            if not (C.DYN_MOD_ID_START <= aid < C.MAX_MODULES):
                res.add("C06", "dynamic_id_range", f"{p.name} asked for id 0 and was given {aid}")
            if isinstance(p, ClientActor) and p.connected_ok and p.client.module_id != aid:
                res.add("C06", "dynamic_id_adopted", f"{p.name} was acknowledged as {aid} but reports module_id="
                                                     f"{p.client.module_id}")
            if aid >= 190:
                res.probes["dynamic_id_high"] += 1
        if aid is not None and o["rid"] != 0 and aid != o["rid"]:
            res.add("C06", "ack_id", f"{p.name} asked for id {o['rid']} and was acknowledged as {aid}")
        # model-free uniqueness invariant over live acknowledged connections
        live = []
        for q in self.parts + [self.monitor, self.prober]:
            if q.sock is None or q.sock.kind != "conn" or not q.alive or q.conn in closed:
                continue
            qid = self.acked_id(q)
            if qid is None:
                continue
            multi = q.opts["multi"] if hasattr(q, "opts") else False
            if getattr(q, "via", "") == "raw_v1":
                multi = False
            live.append((qid, multi, q.name))
        seen = {}
        for qid, multi, nm in live:
            if qid in seen:
                m2, n2 = seen[qid]
                if not (multi and m2):
                    res.add("C06", "duplicate_id", f"{nm} and {n2} are both live and acknowledged with id {qid} "
                                                   f"(allow_multiple: {multi}, {m2})")
            else:
                seen[qid] = (multi, nm)
        if len(live) > 20:
            res.probes["many_live"] += 1
        if light:
            return
        # a directed probe at every live id (checked by the routing oracle at the end)
        for qid in sorted(seen):
            raw = self.prober.frame(T, payload_for(self.w.tag_counter + 1, 8), dest_mod=qid)
            self.prober.send_raw(raw)
        raw = self.prober.frame(T, b"bc")
        self.prober.send_raw(raw)
        self.w.quiesce()

    # ------------------------------------------------------------------ run
    def run(self) -> RunResult:
        res = self.res
        try:
            self.setup()
            ch = self.ch
            n = 2 + ch.pick("id.nsteps", 12)
            bursts = 0
            if self.forced and self.forced.get("table") == "uid_wrap":
                self.case_uid_wrap(self.forced)
                n = 0
            elif self.forced and self.forced.get("table") == "many_alive":
                self.case_many_alive(self.forced)
                n = 0
            for _ in range(n):
                k = ch.weighted("id.step", [(8, "connect"), (3, "disconnect"), (1, "burst"), (2, "drop"), (2, "lazy"),
                                            (1, "vanish"), (2, "again")])
                if k == "connect":
                    self.step_connect()
                elif k == "disconnect":
                    self.step_disconnect()
                elif k == "drop":
                    self.step_drop_reconnect()
                elif k == "lazy":
                    self.step_lazy()
                elif k == "vanish":
                    self.step_vanish()
                elif k == "again":
                    self.step_connect_again()
                elif bursts < 2:
                    bursts += 1
                    self.step_dyn_burst()
            self.finish()
            self.oracles()
        except ManagerCrashed as e:
            res.crash = e.signature()
            res.crash_detail = str(e)
            self.t(f"MANAGER CRASHED: {e}")
        finally:
            for p in self.parts:
                if isinstance(p, ClientActor) and p.client is not None:
                    p.client._connected = False
            self.collect()
            self.res.nontrivial = len(self.attempts) > 1
            self.w.teardown()
        return res

    # ------------------------------------------------------------------ oracles
    def oracles(self):
        res = self.res
        w = self.w
        net = w.net
        model = PubSubModel(net)
        model.run()
        self.model = model
        res.model_states = set(model.states_seen)
        for an in model.anomalies:
            res.add("C06", "model_anomaly", an)
        by_conn = {}
        for a in self.actors:
            if a.sock is not None and a.sock.kind == "conn":
                by_conn[a.conn] = a
        self.oracle_wrongly_closed(model, by_conn)
        # directed probes reach exactly the holder(s) plus loggers
        self.oracle_c01(model, by_conn, prop="C06", clause_prefix="directed.")
        closed = {c: s for (s, c) in net.closes}
        lost = {c for (_s, c) in net.voids} | {w_[1] for w_ in net.wfails}
        # identity model against what each connecting peer saw
        for c in model.controls:
            if c.kind != "connect" or c.decision == IGNORED:
                continue
            ack = c.observed_ack
            if c.decision == MUST_ACCEPT:
                res.probes["must_accept_checked"] += 1
                if ack is None and c.conn not in lost:
                    res.add("C06", "valid_request_refused",
                            f"conn {c.conn} request (id, unique, name, logger)={c.req} must be accepted but got no "
                            f"ACKNOWLEDGE (closed={c.conn in closed})")
            elif c.decision == MUST_REFUSE:
                res.probes["must_refuse_checked"] += 1
                if ack is not None:
                    res.add("C06", "invalid_request_accepted",
                            f"conn {c.conn} request (id, unique, name, logger)={c.req} must be refused but was "
                            f"acknowledged as id {ack.hdr.dest_mod_id}")
                elif c.conn not in closed:
                    res.add("C06", "refused_not_closed", f"conn {c.conn} request {c.req} was not acknowledged but the "
                                                         f"connection was left open")
            else:
                res.probes["dont_care_connects"] += 1
            # dynamic id must be free among live modules (model's view of who is live)
            if ack is not None and c.req and c.req[0] == 0:
                aid = ack.hdr.dest_mod_id
                for m in model.conns.values():
                    if m.conn != c.conn and m.connected and m.mod_id == aid and \
                            (m.connect_seq or 0) < c.fr.seq and (m.removed_seq is None or m.removed_seq > ack.seq):
                        res.add("C06", "dynamic_id_in_use", f"conn {c.conn} was given dynamic id {aid} which live "
                                                            f"conn {m.conn} holds")
        # options on the wire and in CLIENT_INFO, for the public entry points
        infos = {}
        for wfr in self.monitor.sock.peer.tx_frames:
            h, p = wfr.hdr, wfr.payload
            if h.msg_type == C.MT_CLIENT_INFO and h.src_mod_id == 0 and h.send_time < TAG_BASE and len(p) >= 80:
                ci = C.unpack_client_info(p)
                infos.setdefault(ci.port, []).append((wfr.seq, ci))
        reads_by_conn = {}
        for fr in net.reads:
            reads_by_conn.setdefault(fr.conn, []).append(fr)
        # documented auto-naming: a client constructed with an id from the MID table and no name takes
        # that table's name
        import pyrtma.context
        auto = {v: k.encode() for k, v in pyrtma.context.get_context().MID.items()}
        for att in self.attempts:
            p = att.get("part")
            if p is None or att.get("conn") is None:
                continue
            o = att["opts"]
            eff_name = o["name"]
            if att["via"] in ("client", "context") and not eff_name and o["rid"] != 0:
                eff_name = auto.get(o["rid"], b"")
            conn = att["conn"]
            frs = reads_by_conn.get(conn, [])
            if att["via"] in ("client", "context"):
                v2 = [f for f in frs if f.hdr.msg_type == C.MT_CONNECT_V2 and f.complete]
                v1 = [f for f in frs if f.hdr.msg_type == C.MT_CONNECT and f.complete]
                if v2:
                    lg, dm, am, mid, pid, name = struct.unpack_from("<hhhhi32s", v2[0].payload)
                    name = name.split(b"\0", 1)[0]
                    res.probes["wire_options_checked"] += 1
                    want = (int(o["logger"]), int(o["daemon"]), int(o["multi"]), o["rid"], eff_name)
                    got = (lg, dm, am, mid, name)
                    if got != want:
                        res.add("C06", "option_on_wire",
                                f"{p.name} via {att['via']} passed (logger, daemon, allow_multiple, id, name)={want} "
                                f"but CONNECT_V2 carries {got}",
                                sig="option_on_wire:" + att["via"])
                if v1:
                    lg, dm = struct.unpack_from("<hh", v1[0].payload)
                    if (lg, dm) != (int(o["logger"]), int(o["daemon"])):
                        res.add("C06", "option_on_wire", f"{p.name} via {att['via']} CONNECT carries logger/daemon="
                                                         f"{(lg, dm)}", sig="option_on_wire_v1:" + att["via"])
            # CLIENT_INFO published for an accepted connection describes it as requested
            m = model.conns.get(conn)
            if m is not None and m.connected and att.get("acked_id") is not None:
                port = m.port
                cis = [ci for (sq, ci) in infos.get(port, []) if sq > (m.connect_seq or 0)]
                if not cis:
                    if m.connect_seq and m.connect_seq > (model.conns[self.monitor.conn].connect_seq or 0):
                        res.add("C06", "no_client_info", f"no CLIENT_INFO for accepted {p.name}")
                    continue
                ci = cis[0]
                uniq = not o["multi"]
                if att["via"] == "raw_v1":
                    uniq, nm, lgr = True, b"", o["logger"]
                else:
                    nm, lgr = eff_name, o["logger"]
                res.probes["client_info_checked"] += 1
                if (bool(ci.is_logger), bool(ci.is_unique), ci.name, ci.mod_id) != (bool(lgr), uniq, nm[:32], att["acked_id"]):
                    res.add("C06", "option_at_manager",
                            f"{p.name} via {att['via']} asked logger={lgr} unique={uniq} name={nm!r} id={att['acked_id']}; "
                            f"the manager announces is_logger={ci.is_logger} is_unique={ci.is_unique} name={ci.name!r} "
                            f"mod_id={ci.mod_id}", sig="option_at_manager:" + att["via"])


def run(choices, forced=None) -> RunResult:
    return IdentityRun(choices, forced).run()


def det_cases(tier):
    cases = [dict(table="many_alive", shared=150, dynamic=60), dict(table="uid_wrap", n=2000)]
    if tier == "thorough":
        # every 16-bit per-connection counter wraps (about five minutes of simulation for this one run)
        cases.append(dict(table="uid_wrap", n=65400, thieves=240, wall_s=1500))
    return cases
