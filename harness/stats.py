"""Harness `stats` (C18): TIMING_MESSAGE and MESSAGE_TRAFFIC are exact."""
from __future__ import annotations

import logging
import struct
from collections import Counter

from sim import codec as C
from sim.actors import Actor, TAG_BASE
from sim.world import World, ManagerCrashed
from .base import RunResult

ALL = C.ALL_MESSAGE_TYPES
STAT_TYPES = (C.MT_TIMING_MESSAGE, C.MT_MESSAGE_TRAFFIC)
NOT_DATA = set(C.CONTROL_TYPES)
DISTINCT = [0, 1, 2, 63, 64, 65, 128, 129, 300]
DISTINCT_W = [(3, 0), (4, 1), (4, 2), (2, 63), (3, 64), (3, 65), (1, 128), (1, 129), (1, 300)]


class StatsRun:
    def __init__(self, choices, forced=None):
        self.ch = choices
        self.forced = forced or {}
        self.res = RunResult()

    def t(self, s):
        self.res.trace.append(f"t={self.w.clock.now:.3f} {s}")

    def setup(self):
        ch = self.ch
        timecode = bool(ch.pick("cfg.timecode", 2))
        lvl = ch.weighted("cfg.loglevel", [(3, logging.ERROR), (2, logging.INFO)])
        self.timing_on = not ch.flag("cfg.timing_off", 1, 4)     # the manager's -T switch
        self.res.config = dict(timecode=timecode, loglevel=lvl, timing=self.timing_on, forced=self.forced)
        # in some runs ordinary subscribers are sometimes not writable: the resulting FAILED_MESSAGE
        # notices are themselves messages handled for forwarding
        self.notw = ch.choose("cfg.notw", [(0, 1), (0, 1), (1, 3), (1, 6)])
        self.res.config["notw"] = list(self.notw)
        if ch.flag("cfg.previous_life", 1, 6):
            # an earlier manager in the same process handled traffic it never got to report
            w0 = World(ch, timecode=timecode, log_level=lvl, send_msg_timing=self.timing_on, max_rounds=20000)
            w0.patch()
            try:
                w0.start_manager()
                x = Actor(w0, "earlier")
                x.open()
                x.handshake("v2v1", req_id=10, pid=1)
                for i in range(5):
                    x.send(5 if i % 2 else 77, b"", tagged=False)
                w0.quiesce()
            finally:
                w0.teardown()
            self.res.probes["previous_manager_in_process"] += 1
        self.w = World(ch, timecode=timecode, log_level=lvl, send_msg_timing=self.timing_on, p_notwritable=self.notw,
                       max_rounds=600000)
        w = self.w
        w.patch()
        w.start_manager()
        self.t_mgr_start = w.clock.now
        self.mon = Actor(w, "mon")
        self.mon.open()
        self.mon.handshake("v2v1", req_id=90, logger=True, name=b"monitor", pid=9090)
        # watcher mode: nobody is permanently subscribed to MESSAGE_TRAFFIC (or to ALL): the monitor subscribes to
        # every other type individually and a separate watcher comes and goes
        self.watch_mode = (not self.notw[0]) and ch.flag("cfg.watcher", 1, 3)
        self.mon_types = set()
        self.watcher = None
        self.watching = False
        if self.watch_mode:
            base_types = [C.MT_CLIENT_INFO, C.MT_CLIENT_CLOSED, C.MT_FAILED_MESSAGE, C.MT_ACTIVE_CLIENTS,
                          C.MT_TIMING_MESSAGE] + list(C.LOG_TYPES)
            for t in base_types:
                self.mon.subscribe(t)
                self.mon_types.add(t)
            self.watcher = Actor(w, "watcher")
            self.watcher.open()
            # (a logger, so that it is waited for and never skipped when it *is* subscribed)
            self.watcher.handshake("v2v1", req_id=95, pid=9595, name=b"watcher", logger=True)
            self.res.probes["watcher_mode"] += 1
        else:
            self.mon.subscribe(ALL)
        self.pubs = []
        self.pids = {90: {9090}}
        n = 1 + ch.pick("cfg.npubs", 4)
        for i in range(n):
            a = Actor(w, f"pub{i}")
            a.open()
            rid = ch.choose("cfg.pid_id", [10 + i, 10 + i, 0, 20])
            pid = 1000 + 17 * i
            multi = rid == 20
            proto = ch.choose("cfg.proto", ["v2v1", "v2v1", "v1"])
            if proto == "v1" and rid in (0, 20):
                proto = "v2v1"
            ready_first = proto == "v1" and ch.flag("cfg.ready_first", 1, 3)
            if ready_first:
                # an old-style client that announces its process id before it asks to be connected
                a.send(C.MT_MODULE_READY, C.pack_module_ready(pid), src=rid)
                self.res.probes["module_ready_before_connect"] += 1
            a.handshake(proto, req_id=rid, allow_multiple=multi, pid=pid, name=b"")
            a.pid_hist = []          # (seq_sent, seq_done, pid)
            s0 = w.net.seq
            if proto == "v1" and not ready_first:
                a.pid_hist.append((s0, None, 0))
                a.send(C.MT_MODULE_READY, C.pack_module_ready(pid))
            a.pid_hist.append((s0, None, pid))
            a.pid = pid
            self.pubs.append(a)
        w.quiesce()
        for a in self.pubs:
            a.pid_hist = [(s, w.net.seq, p) for (s, _d, p) in a.pid_hist]
        for a in self.pubs:
            if a.req_id == 0:
                a.learn_id()
        if ch.flag("cfg.dyn_churn", 1, 10):
            # over a hundred modules with manager-assigned ids have come and gone before (the id counter has wrapped);
            # one of them stays: every id handed out must still have a slot in the report
            nchurn = 100 + ch.pick("cfg.dyn_churn_n", 6)
            for i in range(nchurn):
                x = Actor(w, f"dyn{i}")
                x.open()
                x.handshake("v2v1", req_id=0, pid=30000 + i)
                w.quiesce()
                if i < nchurn - 1:
                    x.leave("fin")
                    w.quiesce()
            self.res.probes["dynamic_ids_wrapped"] += 1
        # sometimes a module of this very process takes part through the public client API: the process id it
        # reports is whatever os.getpid() says when it connects
        self.real_client = None
        if ch.flag("cfg.real_client", 1, 4):
            import pyrtma
            from pyrtma.exceptions import ClientError
            c = pyrtma.Client(module_id=40, timecode=w.timecode)
            w.register_client_logger(c)
            try:
                c.connect(f"127.0.0.1:{w.PORT}")
                c.send_module_ready()
                w.quiesce()
                self.real_client = c
                import pyrtma.client as _pc
                self.real_pid = _pc.os.getpid()
                self.real_client_since = w.net.seq
                self.res.probes["real_client_pid"] += 1
            except ClientError:
                c._connected = False
        self.view_seq = w.net.seq
        self.view_t = w.clock.now
        # optional ordinary subscribers, so forwarding really fans out
        if (ch.flag("cfg.subscriber", 1, 2) or self.notw[0]) and not self.watch_mode:
            s = Actor(w, "sub")
            s.open()
            s.handshake("v2v1", req_id=70, pid=7070)
            s.subscribe(ch.choose("cfg.subt", [5, 9999, ALL, ALL]))
            if ch.flag("cfg.subfm", 1, 2):
                s.subscribe(C.MT_FAILED_MESSAGE)
            self.pubs_sub = s
            self.sub = s
        w.quiesce()

    def interval(self):
        """publish a chosen multiset of types, then let one or more reporting periods elapse"""
        ch = self.ch
        w = self.w
        d = self.forced.get("distinct")
        if d is None:
            d = ch.weighted("iv.distinct", DISTINCT_W)
        base = ch.choose("iv.base", [0, 1, 5, 9990 - d if d < 9000 else 0, 9999 - max(d - 1, 0), 100])
        base = max(0, base)
        edge = ch.flag("iv.edge", 1, 4)
        types = [base + i for i in range(d)]
        if edge and d:
            types = types[:max(0, d - 3)] + [9999, 10000, -2][:min(3, d)]
        # never a control type (those are requests to the manager, not data)
        clean = [t for t in types if t not in NOT_DATA]
        extra = 5000
        while len(clean) < len(types):
            if extra not in clean:
                clean.append(extra)
            extra += 1
        types = clean
        per = self.forced.get("count")
        if per is None:
            per = ch.weighted("iv.count", [(6, 1), (3, 2), (2, 7), (1, 300)])
        if d > 2 and per > 7:
            per = 2
        if d == 1 and ch.flag("iv.huge", 1, 40):
            per = ch.choose("iv.hugecount", [40000, 65535, 40000, 65534])
            self.res.probes["huge_count"] += 1
        if self.watch_mode:
            new = [t for t in types if t not in self.mon_types]
            for t in new:
                self.mon.subscribe(t)
                self.mon_types.add(t)
            if new:
                w.quiesce(limit=100000)
            want = ch.flag("iv.watch", 1, 2)
            if want != self.watching:
                (self.watcher.subscribe if want else self.watcher.unsubscribe)(C.MT_MESSAGE_TRAFFIC)
                self.watching = want
                w.quiesce()
                self.t(f"watcher {'subscribes to' if want else 'unsubscribes from'} MESSAGE_TRAFFIC")
        self.res.enumerated.setdefault("distinct_types", set()).add(str(d))
        self.t(f"interval: {d} distinct types from {types[0] if types else '-'} x{per} each")
        sent = 0
        split = ch.flag("iv.split", 1, 3)
        for k in range(per):
            for t in types:
                p = ch.choose("iv.pub", self.pubs) if len(self.pubs) > 1 and per * d < 2000 else self.pubs[0]
                p.send_raw(p.frame(t, b"", dest_mod=0))
                sent += 1
                if sent % 4000 == 0:
                    w.quiesce(limit=100000)
            if split and k == per // 2:
                # a reporting boundary falls in the middle of the burst
                w.quiesce(limit=100000)
                w.advance(ch.choose("iv.mid", [0.95, 1.05]))
                w.step()
        w.quiesce(limit=100000)
        dt = ch.choose("iv.dt", [0.85, 0.95, 1.05, 1.9, 2.3, 5.2, 0.3])
        w.advance(dt)
        for _ in range(1 + ch.pick("iv.idle", 3)):
            w.step()
        if ch.flag("iv.intruder", 1, 6):
            # a newcomer asks for an id that is taken (or an id that is out of range): it is refused, and the
            # pid reported for the incumbent must not change
            victim = ch.choose("iv.intr_id", [a.mod_id for a in self.pubs if a.mod_id] + [150, 101])
            x = Actor(w, f"intruder{self.res.probes['intruders']}")
            x.open()
            x.handshake("v2v1", req_id=victim, pid=666, name=b"", allow_multiple=False)
            w.quiesce()
            self.res.probes["intruders"] += 1
            self.t(f"a newcomer asks for id {victim} and is refused")
        if ch.flag("iv.twin_leaves", 1, 8):
            twins = [a for a in self.pubs if a.req_id == 20 and a.alive]
            if len(twins) >= 2:
                gone = twins[-1]
                gone.leave(ch.choose("iv.twl", ["fin", "rst"]))
                self.pubs.remove(gone)
                w.quiesce()
                self.gone = getattr(self, "gone", []) + [(gone, w.net.seq)]
                self.res.probes["sharing_instance_left"] += 1
                self.t(f"{gone.name} (one of the modules sharing id 20) leaves")
        if ch.flag("iv.ready", 1, 5):
            p = ch.choose("iv.rp", self.pubs)
            p.pid = 2000 + ch.pick("iv.newpid", 500)
            s0 = w.net.seq
            p.send(C.MT_MODULE_READY, C.pack_module_ready(p.pid))
            w.quiesce()
            p.pid_hist.append((s0, w.net.seq, p.pid))

    def run(self) -> RunResult:
        res = self.res
        try:
            self.setup()
            n = 2 + self.ch.pick("cfg.nint", 6)
            for _ in range(n):
                self.interval()
            if self.watch_mode and not self.watching:
                self.watcher.subscribe(C.MT_MESSAGE_TRAFFIC)
                self.watching = True
                self.w.quiesce()
            self.w.advance(1.1)
            self.w.step()
            self.w.step()
            self.w.quiesce()
            self.oracle()
        except ManagerCrashed as e:
            res.crash = e.signature()
            res.crash_detail = str(e)
            self.t(f"MANAGER CRASHED: {e}")
        finally:
            w = self.w
            res.stats.update({k: v for k, v in w.net.stats.items() if v})
            res.digest = w.digest()
            res.sim_seconds = w.clock.advanced
            res.round_sigs = set(w.net.round_sigs)
            res.n_choices = len(self.ch.trace)
            res.nontrivial = True
            if getattr(self, "real_client", None) is not None:
                self.real_client._connected = False     # (its __del__ must not talk to a manager that is gone)
            w.teardown()
        return res

    # ------------------------------------------------------------------ oracle
    def oracle(self):
        res = self.res
        net = self.w.net
        mon_tx = self.mon.sock.peer.tx_frames
        # countable events, by sequence number
        events = []   # (seq, type, origin)
        etime = {}    # seq -> virtual time
        for fr in net.reads:
            if fr.complete and fr.hdr.msg_type not in NOT_DATA:
                events.append((fr.done_seq, fr.hdr.msg_type, "client"))
                etime[fr.done_seq] = fr.t
        acks = []
        optional = []
        for wfr in mon_tx:
            h = wfr.hdr
            if h.send_time >= TAG_BASE:
                continue              # a forwarded client frame (counted at its read)
            if h.src_mod_id != 0:
                continue
            if h.msg_type in STAT_TYPES:
                continue
            if h.msg_type == C.MT_ACKNOWLEDGE and h.num_data_bytes == 0:
                acks.append(wfr.seq)   # copies to loggers do not go through forwarding
                continue
            if h.msg_type == C.MT_FAILED_MESSAGE and len(wfr.payload) >= 64:
                fm = C.unpack_failed_message(wfr.payload)
                if fm.hdr.msg_type in STAT_TYPES and fm.hdr.send_time < TAG_BASE:
                    # a notice about an undeliverable statistics message, raised while that message
                    # was being sent: whether it counts is not determined by the statement
                    optional.append(wfr.seq)
                    res.probes["notice_about_stats_message"] += 1
                    continue
                res.probes["notices_counted"] += 1
            events.append((wfr.seq, h.msg_type, "manager"))
            etime[wfr.seq] = wfr.t
        events.sort()
        # when did the monitor's view become complete?
        sub_ack = None
        for wfr in mon_tx:
            if wfr.hdr.msg_type == C.MT_ACKNOWLEDGE:
                sub_ack = wfr.seq
        first_sub = [w_.seq for w_ in mon_tx if w_.hdr.msg_type == C.MT_ACKNOWLEDGE]
        view_from = first_sub[1] if len(first_sub) > 1 else (first_sub[0] if first_sub else 0)
        if self.watch_mode:
            view_from = max(view_from, self.view_seq)

        def counts_between(lo, hi):
            c = Counter()
            for s, t, _o in events:
                if lo < s < hi:
                    c[t] += 1
            return c

        # ---------------- TIMING
        timing = [w_ for w_ in mon_tx if w_.hdr.msg_type == C.MT_TIMING_MESSAGE and w_.hdr.src_mod_id == 0
                  and w_.hdr.send_time < TAG_BASE]
        if not self.timing_on:
            res.probes["timing_switched_off"] += 1
            if timing:
                res.add("C18", "timing_sent_although_disabled", "TIMING_MESSAGE published with send_msg_timing off")
        prev = None
        # the manager's very first report covers everything since it started.  What it originated itself before the
        # monitor could see it is unknown here, so only types that nothing but clients publish are judged -- they must
        # not contain anything an earlier manager of the same process had handled
        first_acks = [w_ for w_ in mon_tx if w_.hdr.msg_type == C.MT_ACKNOWLEDGE]
        if timing and not self.watch_mode and len(first_acks) > 1 and first_acks[1].t - self.t_mgr_start < 0.5 \
                and len(timing[0].payload) == 20808:
            wfr = timing[0]
            arr = struct.unpack_from("<10000H", wfr.payload, 0)
            exp = Counter()
            for s_, t_, o_ in events:
                if s_ < wfr.seq and o_ == "client":
                    exp[t_] += 1
            mgr_types = set(STAT_TYPES) | set(C.LOG_TYPES) | {C.MT_FAILED_MESSAGE, C.MT_CLIENT_INFO, C.MT_CLIENT_CLOSED,
                                                            C.MT_ACKNOWLEDGE}
            for t in range(10000):
                if t in mgr_types:
                    continue
                if arr[t] != (exp.get(t, 0) & 0xFFFF):
                    res.add("C18", "timing_count",
                            f"the first TIMING_MESSAGE reports {arr[t]} messages of type {t}; {exp.get(t, 0)} were handled "
                            f"since the manager started", sig="timing_count_first_report")
                    break
            res.probes["first_timing_report_checked"] += 1
        for wfr in timing:
            if prev is None or prev.seq < view_from:
                prev = wfr
                continue
            if len(wfr.payload) != 20808:
                res.add("C18", "timing_size", f"TIMING_MESSAGE of {len(wfr.payload)} bytes")
                prev = wfr
                continue
            arr = struct.unpack_from("<10000H", wfr.payload, 0)
            pids = struct.unpack_from("<200i", wfr.payload, 20000)
            exp = counts_between(prev.seq, wfr.seq)
            res.probes["timing_reports_checked"] += 1
            nz = {i: v for i, v in enumerate(arr) if v}
            n_opt = sum(1 for s_ in optional if prev.seq < s_ < wfr.seq)
            for t in set(nz) | {t for t in exp if 0 <= t < 10000}:
                want = exp.get(t, 0) & 0xFFFF
                got = nz.get(t, 0)
                if t == C.MT_FAILED_MESSAGE and want <= got <= want + n_opt:
                    continue
                if got != want:
                    res.add("C18", "timing_count",
                            f"TIMING_MESSAGE (msg_count {wfr.hdr.msg_count}) reports {got} messages of type {t}; "
                            f"{exp.get(t, 0)} were handled since the previous report")
                    break
            if any(t >= 10000 or t < 0 for t in exp):
                res.probes["timing_out_of_range_types"] += 1
            if sum(exp.values()) == 0:
                res.probes["timing_empty_interval"] += 1
            # ModulePID for every connected module with a non-zero id
            want_pids = {}
            for a in self.pubs:
                if not a.mod_id or a.mod_id >= 200:
                    continue
                ok = set()
                settled = [(sd, p) for (ss, sd, p) in a.pid_hist if sd < wfr.seq]
                if settled:
                    ok.add(settled[-1][1])
                for ss, sd, p in a.pid_hist:
                    if ss < wfr.seq <= sd:
                        ok.add(p)          # change in flight at report time: old or new
                want_pids.setdefault(a.mod_id, set()).update(ok)
            for a, until in getattr(self, "gone", []):
                if wfr.seq <= until and a.mod_id and a.mod_id < 200:
                    want_pids.setdefault(a.mod_id, set()).update(p for (_s, _d, p) in a.pid_hist)
            want_pids.setdefault(90, set()).add(9090)
            if self.real_client is not None and wfr.seq > self.real_client_since and self.real_client.connected:
                want_pids.setdefault(40, set()).add(self.real_pid)
            for mid, ps in want_pids.items():
                if ps and pids[mid] not in ps:
                    res.add("C18", "timing_pid", f"TIMING_MESSAGE ModulePID[{mid}]={pids[mid]}, module pid is {sorted(ps)}")
                    break
            res.probes["timing_pids_checked"] += len(want_pids)
            prev = wfr
        # ---------------- MESSAGE_TRAFFIC
        groups = {}
        order = []
        traffic_tx = self.watcher.sock.peer.tx_frames if self.watch_mode else mon_tx
        stamps = {}
        for wfr in traffic_tx:
            if wfr.hdr.msg_type == C.MT_MESSAGE_TRAFFIC and wfr.hdr.src_mod_id == 0 and wfr.hdr.send_time < TAG_BASE:
                if len(wfr.payload) != 408:
                    res.add("C18", "traffic_size", f"MESSAGE_TRAFFIC of {len(wfr.payload)} bytes")
                    continue
                seqno, sub_seqno, t0, t1 = struct.unpack_from("<IIdd", wfr.payload, 0)
                types = struct.unpack_from("<64i", wfr.payload, 24)
                cnts = struct.unpack_from("<64H", wfr.payload, 24 + 256)
                if seqno not in groups:
                    groups[seqno] = []
                    order.append(seqno)
                    stamps[seqno] = (t0, t1)
                groups[seqno].append((wfr, sub_seqno, types, cnts))
        prev_seq = None
        prev_no = None
        for seqno in order:
            subs = groups[seqno]
            first = subs[0][0].seq
            if self.watch_mode and (prev_no is None or seqno != prev_no + 1):
                # the previous report was not seen (nobody was subscribed): the interval is delimited by the
                # report's own start timestamp; messages handled exactly at that instant may fall either side
                self.judge_by_time(seqno, subs, first, stamps[seqno][0], events, etime, view_from)
                prev_seq, prev_no = subs[-1][0].seq, seqno
                continue
            prev_no = seqno
            if prev_seq is None or prev_seq < view_from:
                prev_seq = subs[-1][0].seq
                continue
            exp = counts_between(prev_seq, first)
            n_acks = sum(1 for s in acks if prev_seq < s < first)
            n_opt = sum(1 for s_ in optional if prev_seq < s_ < first)
            listed = Counter()
            got = {}
            for wfr, sub_seqno, types, cnts in subs:
                for t, c in zip(types, cnts):
                    if t == -1 and c == 0:
                        continue
                    listed[t] += 1
                    got[t] = got.get(t, 0) + c
            # a client may itself publish type -1: then the padding convention is ambiguous
            if -1 in exp:
                exp = Counter({k: v for k, v in exp.items() if k != -1})
            res.probes["traffic_reports_checked"] += 1
            res.probes[f"traffic_submsgs_{min(len(subs), 6)}"] += 1
            dup = [t for t, n in listed.items() if n > 1]
            if dup:
                res.add("C18", "traffic_duplicate_entry",
                        f"MESSAGE_TRAFFIC seqno {seqno}: type {dup[0]} is listed {listed[dup[0]]} times across its "
                        f"{len(subs)} sub-messages")
            for t in got:
                if t not in exp and not (t == C.MT_ACKNOWLEDGE and n_acks) and not (t == C.MT_FAILED_MESSAGE and n_opt):
                    res.add("C18", "traffic_bogus_entry",
                            f"MESSAGE_TRAFFIC seqno {seqno}: lists type {t} (count {got[t]}) which was not seen in the interval")
                    break
            for t, want in exp.items():
                g = got.get(t)
                if g is None:
                    res.add("C18", "traffic_missing_type", f"MESSAGE_TRAFFIC seqno {seqno}: type {t} was seen {want}x "
                                                           f"but is not listed")
                    break
                lo, hi = want, want + (n_acks if t == C.MT_ACKNOWLEDGE else 0) + (n_opt if t == C.MT_FAILED_MESSAGE else 0)
                if not (lo & 0xFFFF) <= g <= max(hi & 0xFFFF, lo & 0xFFFF) and listed[t] == 1:
                    res.add("C18", "traffic_count", f"MESSAGE_TRAFFIC seqno {seqno}: type {t} count {g}, expected {want}")
                    break
            ss = [s for (_w, s, _t, _c) in subs]
            if ss != list(range(1, len(ss) + 1)):
                res.probes["traffic_subseq_irregular"] += 1
            prev_seq = subs[-1][0].seq
        # nothing that was handled may stay unreported: the run ends with a full reporting period
        client_events = [(s_, t_) for (s_, t_, o_) in events if o_ == "client" and s_ > view_from]
        if client_events:
            last_traffic = max((g[0][0].seq for g in groups.values()), default=None)
            unreported = [e for e in client_events if last_traffic is None or e[0] > last_traffic]
            if unreported and not self.watch_mode:     # (in watcher mode reports may legitimately go unseen)
                res.add("C18", "traffic_never_reported",
                        f"{len(unreported)} forwarded messages (first: type {unreported[0][1]}) were followed by a full "
                        f"reporting period but no MESSAGE_TRAFFIC report covers them "
                        f"({len(groups)} reports in the run)")
            if self.timing_on:
                last_timing = max((w_.seq for w_ in timing), default=None)
                unrep = [e for e in client_events if last_timing is None or e[0] > last_timing]
                if unrep:
                    res.add("C18", "timing_never_reported", f"{len(unrep)} forwarded messages are covered by no "
                                                            f"TIMING_MESSAGE although a full period elapsed")


def run(choices, forced=None) -> RunResult:
    return StatsRun(choices, forced).run()


def _judge_by_time(self, seqno, subs, first, start_ts, events, etime, view_from):
    res = self.res
    if start_ts <= self.view_t:
        return          # the interval began before the monitor's view was complete
    lower, upper = Counter(), Counter()
    for s_, t_, _o in events:
        if s_ >= first or s_ <= view_from:
            continue
        tm = etime.get(s_, 0.0)
        if tm > start_ts:
            lower[t_] += 1
        if tm >= start_ts:
            upper[t_] += 1
    got = {}
    listed = Counter()
    for wfr, sub_seqno, types, cnts in subs:
        for t, c in zip(types, cnts):
            if t == -1 and c == 0:
                continue
            listed[t] += 1
            got[t] = got.get(t, 0) + c
    res.probes["traffic_reports_after_gap_checked"] += 1
    dup = [t for t, n in listed.items() if n > 1]
    if dup:
        res.add("C18", "traffic_duplicate_entry", f"MESSAGE_TRAFFIC seqno {seqno}: type {dup[0]} is listed {listed[dup[0]]} times")
    for t, g in got.items():
        if t in (C.MT_ACKNOWLEDGE, C.MT_FAILED_MESSAGE):
            continue
        if g > (upper.get(t, 0) & 0xFFFF) and upper.get(t, 0) < 65536:
            res.add("C18", "traffic_stale_counts",
                    f"MESSAGE_TRAFFIC seqno {seqno} (interval starting at t={start_ts:.3f}) reports {g} messages of type {t}; "
                    f"at most {upper.get(t, 0)} were handled in that interval")
            return
    for t, lo in lower.items():
        if t in (C.MT_ACKNOWLEDGE, C.MT_FAILED_MESSAGE):
            continue
        if got.get(t, 0) < (lo & 0xFFFF) and lo < 65536:
            res.add("C18", "traffic_missing_type", f"MESSAGE_TRAFFIC seqno {seqno}: type {t} was handled {lo}x in the interval "
                                                   f"but {got.get(t, 0)} are reported")
            return


StatsRun.judge_by_time = _judge_by_time


def det_cases(tier):
    cases = []
    for d in DISTINCT + [62, 66, 127, 130, 192, 193, 256, 500]:
        for count in (1, 2, 7):
            cases.append(dict(distinct=d, count=count))
    # more distinct types in one interval than the TIMING_MESSAGE table has slots
    cases.append(dict(distinct=10040, count=1, wall_s=300))
    return cases
