#!/venv/bin/python
"""Single entry point of the pyrtma deterministic-simulation checks.

  run_check.py <Cnn> [--tier quick|thorough] [--seed N] [--budget S] [--workers N]
  run_check.py --replay <file>
  run_check.py selftest [--quick]

exit 0 = the property held on everything explored (KNOWN-FINDING lines may be printed)
exit 1 = "VIOLATION property=<id> replay=<path>"
exit 2 = harness error (never counted as a pass, never as a violation)
"""
import argparse
import os
import sys

HERE = os.path.dirname(os.path.abspath(__file__))
sys.path.insert(0, HERE)

# hash-order independence is proved by the self-test; checks additionally pin it
if os.environ.get("PYTHONHASHSEED") is None:
    os.environ["PYTHONHASHSEED"] = "0"
    os.execv(sys.executable, [sys.executable] + sys.argv)

TIER_BUDGET = {"quick": 40.0, "thorough": 600.0}


def main():
    ap = argparse.ArgumentParser()
    ap.add_argument("what", nargs="?")
    ap.add_argument("--tier", default=os.environ.get("VERIF_TIER", "quick"), choices=["quick", "thorough"])
    ap.add_argument("--seed", type=int, default=int(os.environ.get("VERIF_SEED", "0") or 0))
    ap.add_argument("--budget", type=float, default=None)
    ap.add_argument("--workers", type=int, default=int(os.environ.get("VERIF_WORKERS", "16")))
    ap.add_argument("--replay")
    ap.add_argument("--max-runs", type=int, default=None)
    ap.add_argument("--quick", action="store_true")
    args = ap.parse_args()

    from sim import runner

    if args.replay:
        ok, detail, digest, data = runner.replay_file(args.replay)
        same = "same" if digest == data["violation"].get("digest") else "different"
        print(f"replay {args.replay}: property={data['property']} clause={data['violation']['clause']}")
        print(f"  {detail}")
        print(f"  digest-value={digest}")
        if ok:
            print(f"  digest={same}")
            print(f"VIOLATION property={data['property']} replay={args.replay}")
            return 1
        print("  not reproduced")
        return 0

    if args.what == "selftest":
        from sim import selftest
        return selftest.main(quick=args.quick, workers=args.workers)

    if not args.what:
        ap.error("property id required")
    budget = args.budget if args.budget is not None else TIER_BUDGET[args.tier]
    if args.budget is None and args.tier == "quick":
        from harness.registry import get_spec
        qb = get_spec(args.what).quick_budget
        if qb:
            budget = qb
    return runner.run_property(args.what, args.tier, args.seed, args.workers, budget,
                               max_runs=args.max_runs)


def _main_with_scratch():
    """every temporary file of the run lives in one scratch directory that is removed on the way out"""
    import shutil
    import tempfile
    own = None
    if not os.environ.get("VERIF_SCRATCH"):
        own = tempfile.mkdtemp(prefix="verif_scratch_", dir=os.environ.get("TMPDIR", "/tmp"))
        os.environ["VERIF_SCRATCH"] = own
    rc = 2
    try:
        rc = main()
        return rc
    finally:
        if own:
            shutil.rmtree(own, ignore_errors=True)
        try:
            from sim import world as _w
            hangs = _w.HANGS
        except Exception:
            hangs = 0
        if hangs:
            # a manager thread of this process is blocked for ever and may hold logging locks
            sys.stdout.flush()
            sys.stderr.flush()
            os._exit(rc if isinstance(rc, int) else 2)


if __name__ == "__main__":
    sys.exit(_main_with_scratch())
